(* Proofs/PoolProofs.v — C14: lemmas about Model/Pool.v instantiated with the loop bodies
   generated from the source (gen/Pool_gen.v). *)
From Coq Require Import List Arith Bool Lia.
Import ListNotations.
From PV Require Import Model.Pool gen.Pool_gen gen.PoolIds_gen.

(* ------------------------------------------------------------------ list facts *)
Lemma filter_len_le : forall (A : Type) (f : A -> bool) (l : list A), length (filter f l) <= length l.
Proof.
  intros A f l; induction l as [|a l IH]; simpl; [lia|].
  destruct (f a); simpl; lia.
Qed.

Lemma forallb_filter_id : forall (A : Type) (f : A -> bool) (l : list A),
  forallb f l = true -> filter f l = l.
Proof.
  intros A f l; induction l as [|a l IH]; simpl; intros H; [reflexivity|].
  apply andb_true_iff in H; destruct H as [Ha Hl]. rewrite Ha, (IH Hl). reflexivity.
Qed.

Lemma forallb_filter : forall (A : Type) (f : A -> bool) (l : list A), forallb f (filter f l) = true.
Proof.
  intros A f l; induction l as [|a l IH]; simpl; [reflexivity|].
  destruct (f a) eqn:E; simpl; [rewrite E|]; exact IH.
Qed.

Lemma filter_idem : forall (A : Type) (f : A -> bool) (l : list A), filter f (filter f l) = filter f l.
Proof. intros; apply forallb_filter_id, forallb_filter. Qed.

Definition fresh (s n : nat) : list worker := map (fun i => mkW i true) (seq s n).

Lemma fresh_alive : forall s n, filter walive (fresh s n) = fresh s n.
Proof.
  intros s n; revert s; induction n as [|n IH]; intros s; simpl; [reflexivity|].
  unfold fresh in IH. rewrite IH. reflexivity.
Qed.

Lemma fresh_forallb : forall s n, forallb walive (fresh s n) = true.
Proof. intros; rewrite <- fresh_alive; apply forallb_filter. Qed.

Lemma fresh_length : forall s n, length (fresh s n) = n.
Proof. intros; unfold fresh; rewrite map_length, seq_length; reflexivity. Qed.

Lemma fresh_ids : forall s n, ids (fresh s n) = seq s n.
Proof.
  intros; unfold ids, fresh. rewrite map_map. simpl. apply map_id.
Qed.

(* ------------------------------------------------------------------ spawning and pruning *)
Lemma spawn_n_tracked : forall n p, tracked (spawn_n n p) = tracked p ++ fresh (next p) n.
Proof.
  induction n as [|n IH]; intros p; simpl.
  - unfold fresh; simpl. now rewrite app_nil_r.
  - rewrite IH. unfold spawn1, fresh; simpl. rewrite <- app_assoc. reflexivity.
Qed.

Lemma spawn_n_next : forall n p, next (spawn_n n p) = next p + n.
Proof. induction n as [|n IH]; intros p; simpl; [lia|]. rewrite IH; simpl; lia. Qed.

Lemma spawn_n_queue : forall n p, queue (spawn_n n p) = queue p.
Proof. induction n as [|n IH]; intros p; simpl; [reflexivity|]. rewrite IH; reflexivity. Qed.

Lemma spawn_n_live : forall n p, live (spawn_n n p) = live p ++ fresh (next p) n.
Proof. intros; unfold live. rewrite spawn_n_tracked, filter_app, fresh_alive. reflexivity. Qed.

Lemma spawn_n_nlive : forall n p, nlive (spawn_n n p) = nlive p + n.
Proof. intros; unfold nlive. rewrite spawn_n_live, app_length, fresh_length. reflexivity. Qed.

Lemma spawn_n_ntracked : forall n p, ntracked (spawn_n n p) = ntracked p + n.
Proof. intros; unfold ntracked. rewrite spawn_n_tracked, app_length, fresh_length. reflexivity. Qed.

Lemma spawn_n_no_dead : forall n p, no_dead (spawn_n n p) = no_dead p.
Proof.
  intros; unfold no_dead. rewrite spawn_n_tracked, forallb_app, fresh_forallb. apply andb_true_r.
Qed.

Lemma nlive_le_ntracked : forall p, nlive p <= ntracked p.
Proof. intros; apply filter_len_le. Qed.

Lemma no_dead_nlive : forall p, no_dead p = true -> nlive p = ntracked p.
Proof. intros p H; unfold nlive, ntracked, live. rewrite (forallb_filter_id _ _ _ H). reflexivity. Qed.

Lemma prune_no_dead : forall p, no_dead (prune p) = true.
Proof. intros; apply forallb_filter. Qed.

Lemma prune_nlive : forall p, nlive (prune p) = nlive p.
Proof.
  intros; unfold nlive. change (live (prune p)) with (filter walive (filter walive (tracked p))).
  rewrite filter_idem. reflexivity.
Qed.

Lemma prune_ntracked : forall p, ntracked (prune p) = nlive p.
Proof. reflexivity. Qed.

(* ------------------------------------------------------------------ one iteration, per shape *)
(* scale-up on a pool without dead entries brings it to the demand and never kills *)
Lemma scale_up_facts : forall c p, no_dead p = true ->
  let p' := scale_up c p in
  no_dead p' = true /\ nlive p' = Nat.max (nlive p) (mtr_demand c p) /\ queue p' = queue p
  /\ ntracked p' = nlive p'.
Proof.
  intros c p Hnd; cbv zeta.
  pose proof (no_dead_nlive p Hnd) as Hl.
  unfold scale_up, mtr_demand. destruct (enforce c).
  - rewrite spawn_n_no_dead, spawn_n_nlive, spawn_n_queue, spawn_n_ntracked. repeat split; try assumption; lia.
  - destruct (ntracked p <? queue p) eqn:E1; destruct (ntracked p <? cap c) eqn:E2; simpl;
      try apply Nat.ltb_lt in E1; try apply Nat.ltb_lt in E2;
      try apply Nat.ltb_ge in E1; try apply Nat.ltb_ge in E2;
      try rewrite spawn_n_no_dead, spawn_n_nlive, spawn_n_queue, spawn_n_ntracked;
      repeat split; try assumption; try lia.
Qed.

Lemma mtr_fixed_iter_facts : forall c p,
  let p' := iter c [LPrune; LScaleUp] p in
  no_dead p' = true /\ nlive p' = Nat.max (nlive p) (mtr_demand c p) /\ queue p' = queue p
  /\ ntracked p' = nlive p'.
Proof.
  intros c p; cbv zeta. change (iter c [LPrune; LScaleUp] p) with (scale_up c (prune p)).
  pose proof (scale_up_facts c (prune p) (prune_no_dead p)) as H; cbv zeta in H.
  rewrite prune_nlive in H. exact H.
Qed.

Lemma ppr_iter_facts : forall c p,
  let p' := iter c [LPrune; LSpawnTo] p in
  no_dead p' = true /\ nlive p' = Nat.max (cap c) (nlive p) /\ ntracked p' = nlive p'.
Proof.
  intros c p; cbv zeta. change (iter c [LPrune; LSpawnTo] p) with (spawn_n (cap c - nlive p) (prune p)).
  rewrite spawn_n_no_dead, spawn_n_nlive, spawn_n_ntracked, prune_nlive, prune_ntracked, prune_no_dead.
  repeat split; lia.
Qed.

Lemma pr_iter_facts : forall c p,
  let p' := iter c [LPrune; LSpawnFromQueue] p in
  let k := Nat.min (cap c - nlive p) (queue p) in
  no_dead p' = true /\ nlive p' = nlive p + k /\ queue p' = queue p - k /\ ntracked p' = nlive p'.
Proof.
  intros c p; cbv zeta.
  change (iter c [LPrune; LSpawnFromQueue] p) with (spawn_from_queue c (prune p)).
  unfold spawn_from_queue. rewrite prune_ntracked.
  change (queue (prune p)) with (queue p).
  set (k := Nat.min (cap c - nlive p) (queue p)).
  unfold no_dead, nlive, ntracked, live; simpl.
  fold (live (spawn_n k (prune p))). fold (nlive (spawn_n k (prune p))).
  fold (ntracked (spawn_n k (prune p))). fold (no_dead (spawn_n k (prune p))).
  rewrite spawn_n_no_dead, spawn_n_nlive, spawn_n_ntracked, prune_nlive, prune_ntracked, prune_no_dead.
  repeat split; lia.
Qed.

(* ------------------------------------------------------------------ events keep the tracked count bounded *)
Lemma kill_ntracked : forall d p, ntracked (kill d p) = ntracked p.
Proof. intros; unfold ntracked, kill; simpl. apply map_length. Qed.

Lemma iterate_inv : forall (I : pool -> Prop) f, (forall p, I p -> I (f p)) -> forall k p, I p -> I (iterate k f p).
Proof. intros I f Hf k; induction k as [|k IH]; intros p Hp; simpl; [exact Hp|]. apply Hf, IH, Hp. Qed.

Lemma run_inv : forall (I : pool -> Prop) c ops,
  (forall p, I p -> I (iter c ops p)) ->
  (forall p d, I p -> I (kill d p)) ->
  (forall p q, I p -> I (mkP (tracked p) (next p) q (freed p))) ->
  forall evs p, I p -> I (run c ops p evs).
Proof.
  intros I c ops Hi Hk Hq evs; induction evs as [|e evs IH]; intros p Hp; simpl; [exact Hp|].
  apply IH. destruct e; simpl.
  - apply Hk, Hp.
  - apply Hq, Hp.
  - apply Hq, Hp.
  - apply Hi, Hp.
  - exact Hp.
Qed.

Lemma start_ntracked : forall c, ntracked (start c) = initial c.
Proof. intros; unfold start. rewrite spawn_n_ntracked. reflexivity. Qed.

(* ------------------------------------------------------------------ PersistentProcessRunner *)
Definition ppr_restored_for (ops : list lop) : Prop :=
  forall min_slots num_conf cpu evs k,
    let c := ppr_cfg min_slots num_conf cpu in
    let p := run c ops (start c) evs in
    let p' := iterate (S k) (iter c ops) p in
    no_dead p' = true /\ nlive p' = cap c /\ ntracked p' = cap c.

Lemma ppr_bound_step : forall c p, ntracked p <= cap c -> ntracked (iter c [LPrune; LSpawnTo] p) <= cap c.
Proof.
  intros c p H. destruct (ppr_iter_facts c p) as (_ & Hl & Ht). rewrite Ht, Hl.
  pose proof (nlive_le_ntracked p). lia.
Qed.

Lemma ppr_restored_shape : ppr_restored_for [LPrune; LSpawnTo].
Proof.
  unfold ppr_restored_for; intros a b cpu evs k; cbv zeta.
  set (c := ppr_cfg a b cpu).
  set (q := iterate k (iter c [LPrune; LSpawnTo]) (run c [LPrune; LSpawnTo] (start c) evs)).
  assert (Hb : ntracked q <= cap c).
  { apply (iterate_inv (fun p => ntracked p <= cap c)); [apply ppr_bound_step|].
    apply (run_inv (fun p => ntracked p <= cap c)).
    - apply ppr_bound_step.
    - intros p d H; rewrite kill_ntracked; exact H.
    - intros p n H; exact H.
    - rewrite start_ntracked. unfold c, ppr_cfg; simpl. lia. }
  change (iterate (S k) (iter c [LPrune; LSpawnTo]) (run c [LPrune; LSpawnTo] (start c) evs))
    with (iter c [LPrune; LSpawnTo] q).
  destruct (ppr_iter_facts c q) as (Hnd & Hl & Ht). cbv zeta in *.
  pose proof (nlive_le_ntracked q) as Hle.
  split; [exact Hnd|]. split; lia.
Qed.

Lemma ppr_restored_gen : ppr_restored_for ppr_loop_ops.
Proof. exact ppr_restored_shape. Qed.

(* from ANY state (reachable or not): at least the configured number, nobody dead *)
Lemma ppr_any_state : forall c p k,
  let p' := iterate (S k) (iter c ppr_loop_ops) p in no_dead p' = true /\ cap c <= nlive p'.
Proof.
  intros c p k; cbv zeta.
  change (iterate (S k) (iter c ppr_loop_ops) p) with (iter c [LPrune; LSpawnTo] (iterate k (iter c ppr_loop_ops) p)).
  destruct (ppr_iter_facts c (iterate k (iter c ppr_loop_ops) p)) as (Hnd & Hl & _). cbv zeta in *.
  split; [exact Hnd|]. lia.
Qed.

(* ------------------------------------------------------------------ ProcessRunner *)
Definition pr_restored_for (ops : list lop) : Prop :=
  forall min_slots cpu evs k,
    let c := pr_cfg min_slots cpu in
    let p := run c ops (start c) evs in
    let p' := iterate (S k) (iter c ops) p in
    no_dead p' = true /\ nlive p' <= cap c /\ (nlive p' = cap c \/ queue p' = 0).

Lemma pr_bound_step : forall c p, ntracked p <= cap c -> ntracked (iter c [LPrune; LSpawnFromQueue] p) <= cap c.
Proof.
  intros c p H. destruct (pr_iter_facts c p) as (_ & Hl & _ & Ht). cbv zeta in *. rewrite Ht, Hl.
  pose proof (nlive_le_ntracked p). lia.
Qed.

Lemma pr_restored_shape : pr_restored_for [LPrune; LSpawnFromQueue].
Proof.
  unfold pr_restored_for; intros a cpu evs k; cbv zeta.
  set (c := pr_cfg a cpu).
  set (q := iterate k (iter c [LPrune; LSpawnFromQueue]) (run c [LPrune; LSpawnFromQueue] (start c) evs)).
  assert (Hb : ntracked q <= cap c).
  { apply (iterate_inv (fun p => ntracked p <= cap c)); [apply pr_bound_step|].
    apply (run_inv (fun p => ntracked p <= cap c)).
    - apply pr_bound_step.
    - intros p d H; rewrite kill_ntracked; exact H.
    - intros p n H; exact H.
    - rewrite start_ntracked. simpl. lia. }
  change (iterate (S k) (iter c [LPrune; LSpawnFromQueue]) (run c [LPrune; LSpawnFromQueue] (start c) evs))
    with (iter c [LPrune; LSpawnFromQueue] q).
  destruct (pr_iter_facts c q) as (Hnd & Hl & Hq & Ht). cbv zeta in *.
  pose proof (nlive_le_ntracked q) as Hle.
  split; [exact Hnd|]. split; lia.
Qed.

Lemma pr_restored_gen : pr_restored_for pr_loop_ops.
Proof. exact pr_restored_shape. Qed.

(* one iteration picks up exactly min(free slots, waiting invocations) — nothing is lost or invented *)
Lemma pr_pickup : forall c p,
  let p' := iter c pr_loop_ops p in
  nlive p' + queue p' = nlive p + queue p /\
  nlive p' = nlive p + Nat.min (cap c - nlive p) (queue p).
Proof.
  intros c p; cbv zeta. destruct (pr_iter_facts c p) as (_ & Hl & Hq & _). cbv zeta in *.
  unfold pr_loop_ops. lia.
Qed.

(* ------------------------------------------------------------------ MultiThreadRunner *)
Lemma lop_eqb_eq : forall a b, lop_eqb a b = true -> a = b.
Proof. intros a b; destruct a, b; simpl; intros H; try reflexivity; discriminate. Qed.

Lemma lops_eqb_eq : forall a b, lops_eqb a b = true -> a = b.
Proof.
  induction a as [|x a IH]; intros b; destruct b as [|y b]; simpl; intros H; try reflexivity; try discriminate.
  apply andb_true_iff in H; destruct H as [H1 H2]. rewrite (lop_eqb_eq _ _ H1), (IH _ H2). reflexivity.
Qed.

(* full-strength statement: whatever dies, in whatever combination, after the next iteration(s)
   no dead worker is tracked and the live workers cover the demand (enforce: the configured
   maximum; otherwise min(queue, maximum)) *)
Definition mtr_restored_for (ops : list lop) : Prop :=
  forall min_p max_p cpu enf evs k,
    let c := mtr_cfg min_p max_p cpu enf in
    let p := run c ops (start c) evs in
    let p' := iterate (S k) (iter c ops) p in
    no_dead p' = true /\ mtr_demand c p' <= nlive p'.

(* its refutation: two workers, both die, two invocations are waiting: no number of iterations
   brings a single live worker back — with enforce_max_processes on or off *)
Definition mtr_refuted_for (ops : list lop) : Prop :=
  forall enf k,
    let c := mtr_cfg 2 2 4 enf in
    let p := run c ops (start c) [EKill [0; 1]; EEnqueue 2] in
    let p' := iterate k (iter c ops) p in
    nlive p' = 0 /\ no_dead p' = false /\ mtr_demand c p' = 2.

Lemma mtr_restored_shape : mtr_restored_for [LPrune; LScaleUp].
Proof.
  unfold mtr_restored_for; intros a b cpu enf evs k; cbv zeta.
  set (c := mtr_cfg a b cpu enf).
  set (q := iterate k (iter c [LPrune; LScaleUp]) (run c [LPrune; LScaleUp] (start c) evs)).
  change (iterate (S k) (iter c [LPrune; LScaleUp]) (run c [LPrune; LScaleUp] (start c) evs))
    with (iter c [LPrune; LScaleUp] q).
  destruct (mtr_fixed_iter_facts c q) as (Hnd & Hl & Hq & _). cbv zeta in *.
  split; [exact Hnd|]. unfold mtr_demand in *. rewrite Hq. destruct (enforce c); lia.
Qed.

Lemma mtr_refuted_shape : mtr_refuted_for [LScaleUp].
Proof.
  unfold mtr_refuted_for; intros enf k; cbv zeta.
  set (c := mtr_cfg 2 2 4 enf).
  set (p0 := run c [LScaleUp] (start c) [EKill [0; 1]; EEnqueue 2]).
  assert (Hstep : iter c [LScaleUp] p0 = p0) by (unfold p0, c; destruct enf; vm_compute; reflexivity).
  assert (Hfix : forall n, iterate n (iter c [LScaleUp]) p0 = p0).
  { intros n; induction n as [|n IH]; [reflexivity|].
    change (iterate (S n) (iter c [LScaleUp]) p0) with (iter c [LScaleUp] (iterate n (iter c [LScaleUp]) p0)).
    rewrite IH. exact Hstep. }
  rewrite Hfix. unfold p0, c. destruct enf; vm_compute; repeat split; reflexivity.
Qed.

Definition mtr_loop_prunes : bool := lops_eqb mtr_loop_ops [LPrune; LScaleUp].

Lemma mtr_shape_known :
  lops_eqb mtr_loop_ops [LPrune; LScaleUp] || lops_eqb mtr_loop_ops [LScaleUp] = true.
Proof. vm_compute. reflexivity. Qed.

Lemma mtr_verdict :
  if mtr_loop_prunes then mtr_restored_for mtr_loop_ops else mtr_refuted_for mtr_loop_ops.
Proof.
  pose proof mtr_shape_known as H. unfold mtr_loop_prunes.
  destruct (lops_eqb mtr_loop_ops [LPrune; LScaleUp]) eqn:E.
  - apply lops_eqb_eq in E. rewrite E. exact mtr_restored_shape.
  - rewrite orb_false_l in H. apply lops_eqb_eq in H. rewrite H. exact mtr_refuted_shape.
Qed.

(* the part that holds for the loop as it is written today AND after the repair: as long as no
   tracked worker is dead, an iteration leaves nobody dead and covers the demand *)
Lemma mtr_partial : forall c p, no_dead p = true ->
  let p' := iter c mtr_loop_ops p in
  no_dead p' = true /\ mtr_demand c p' <= nlive p' /\ nlive p <= nlive p'.
Proof.
  intros c p Hnd; cbv zeta. pose proof mtr_shape_known as H.
  destruct (lops_eqb mtr_loop_ops [LPrune; LScaleUp]) eqn:E.
  - apply lops_eqb_eq in E. rewrite E.
    destruct (mtr_fixed_iter_facts c p) as (H1 & H2 & H3 & _). cbv zeta in *.
    split; [exact H1|]. unfold mtr_demand in *. rewrite H3. destruct (enforce c); lia.
  - rewrite orb_false_l in H. apply lops_eqb_eq in H. rewrite H.
    change (iter c [LScaleUp] p) with (scale_up c p).
    destruct (scale_up_facts c p Hnd) as (H1 & H2 & H3 & _). cbv zeta in *.
    split; [exact H1|]. unfold mtr_demand in *. rewrite H3. destruct (enforce c); lia.
Qed.

(* ------------------------------------------------------------------ forgetting and heartbeats *)
(* J: id was issued and is not the id of a live tracked worker;  K: issued and not tracked at all *)
Definition J (id : nat) (p : pool) : Prop := id < next p /\ ~ In id (ids (live p)).
Definition K (id : nat) (p : pool) : Prop := id < next p /\ ~ In id (ids (tracked p)).

Lemma live_sub_tracked : forall p id, In id (ids (live p)) -> In id (ids (tracked p)).
Proof.
  intros p id H. unfold ids, live in *. apply in_map_iff in H. destruct H as (w & Hw & Hin).
  apply filter_In in Hin. apply in_map_iff. exists w. tauto.
Qed.

Lemma K_J : forall id p, K id p -> J id p.
Proof. intros id p [H1 H2]. split; [exact H1|]. intros H; apply H2, live_sub_tracked, H. Qed.

Lemma do_op_shape : forall c p o, exists n,
  (tracked (do_op c p o) = tracked p ++ fresh (next p) n \/ tracked (do_op c p o) = live p ++ fresh (next p) n)
  /\ next (do_op c p o) = next p + n.
Proof.
  intros c p o; destruct o; simpl.
  - exists 0. split; [right; unfold fresh; simpl; now rewrite app_nil_r | lia].
  - unfold spawn_to. eexists. split; [left; apply spawn_n_tracked | apply spawn_n_next].
  - unfold scale_up. destruct (enforce c).
    + eexists. split; [left; apply spawn_n_tracked | apply spawn_n_next].
    + destruct ((ntracked p <? queue p) && (ntracked p <? cap c)).
      * eexists. split; [left; apply spawn_n_tracked | apply spawn_n_next].
      * exists 0. split; [left; unfold fresh; simpl; now rewrite app_nil_r | lia].
  - unfold spawn_from_queue; simpl. eexists. split; [left; apply spawn_n_tracked | apply spawn_n_next].
Qed.

Lemma not_in_fresh : forall id s n, id < s -> ~ In id (ids (fresh s n)).
Proof. intros id s n H Hin. rewrite fresh_ids in Hin. apply in_seq in Hin. lia. Qed.

Lemma ids_app : forall a b, ids (a ++ b) = ids a ++ ids b.
Proof. intros; apply map_app. Qed.

Lemma do_op_K : forall c o id p, K id p -> K id (do_op c p o).
Proof.
  intros c o id p [H1 H2]. destruct (do_op_shape c p o) as (n & [Ht|Ht] & Hn); split; try lia;
    rewrite Ht, ids_app; intros Hin; apply in_app_or in Hin; destruct Hin as [Hin|Hin].
  - exact (H2 Hin).
  - exact (not_in_fresh id (next p) n H1 Hin).
  - exact (H2 (live_sub_tracked p id Hin)).
  - exact (not_in_fresh id (next p) n H1 Hin).
Qed.

Lemma do_op_J : forall c o id p, J id p -> J id (do_op c p o).
Proof.
  intros c o id p [H1 H2]. destruct (do_op_shape c p o) as (n & [Ht|Ht] & Hn); split; try lia;
    unfold live; rewrite Ht, filter_app, fresh_alive, ids_app; intros Hin; apply in_app_or in Hin;
    destruct Hin as [Hin|Hin].
  - exact (H2 Hin).
  - exact (not_in_fresh id (next p) n H1 Hin).
  - fold (live p) in Hin. unfold live in Hin at 1. rewrite filter_idem in Hin. exact (H2 Hin).
  - exact (not_in_fresh id (next p) n H1 Hin).
Qed.

Lemma iter_K : forall c ops id p, K id p -> K id (iter c ops p).
Proof.
  intros c ops id; unfold iter; induction ops as [|o ops IH]; intros p H; simpl; [exact H|].
  apply IH, do_op_K, H.
Qed.

Lemma iter_J : forall c ops id p, J id p -> J id (iter c ops p).
Proof.
  intros c ops id; unfold iter; induction ops as [|o ops IH]; intros p H; simpl; [exact H|].
  apply IH, do_op_J, H.
Qed.

Lemma kill_ids : forall d p, ids (tracked (kill d p)) = ids (tracked p).
Proof.
  intros d p; unfold kill, ids; simpl. rewrite map_map. apply map_ext.
  intros w; destruct (existsb (Nat.eqb (wid w)) d); reflexivity.
Qed.

Lemma kill_live_sub : forall d p id, In id (ids (live (kill d p))) -> In id (ids (live p)).
Proof.
  intros d p id H. unfold ids, live, kill in *; simpl in *.
  apply in_map_iff in H. destruct H as (w & Hw & Hin). apply filter_In in Hin. destruct Hin as [Hin Ha].
  apply in_map_iff in Hin. destruct Hin as (w0 & Hw0 & Hin0).
  destruct (existsb (Nat.eqb (wid w0)) d).
  - subst w. simpl in Ha. discriminate.
  - subst w0. apply in_map_iff. exists w. split; [exact Hw|]. apply filter_In. split; assumption.
Qed.

Lemma kill_K : forall d id p, K id p -> K id (kill d p).
Proof. intros d id p [H1 H2]. split; [exact H1|]. rewrite kill_ids. exact H2. Qed.

Lemma kill_J : forall d id p, J id p -> J id (kill d p).
Proof. intros d id p [H1 H2]. split; [exact H1|]. intros H; apply H2, (kill_live_sub d p id H). Qed.

(* a worker that dies is, from that moment, not a live tracked worker *)
Lemma kill_establishes_J : forall d id p, In id d -> id < next p -> J id (kill d p).
Proof.
  intros d id p Hd Hn. split; [exact Hn|]. intros H.
  unfold ids, live, kill in H; simpl in H.
  apply in_map_iff in H. destruct H as (w & Hw & Hin). apply filter_In in Hin. destruct Hin as [Hin Ha].
  apply in_map_iff in Hin. destruct Hin as (w0 & Hw0 & _).
  destruct (existsb (Nat.eqb (wid w0)) d) eqn:E.
  - subst w. simpl in Ha. discriminate.
  - subst w0. assert (X : existsb (Nat.eqb (wid w)) d = true).
    { apply existsb_exists. exists id. split; [exact Hd|]. apply Nat.eqb_eq. exact Hw. }
    rewrite X in E. discriminate.
Qed.

Lemma run_K : forall c ops id evs p, K id p -> K id (run c ops p evs).
Proof.
  intros c ops id evs p H. apply (run_inv (K id)); try assumption.
  - intros q; apply iter_K.
  - intros q d; apply kill_K.
  - intros q n Hq; exact Hq.
Qed.

Lemma run_J : forall c ops id evs p, J id p -> J id (run c ops p evs).
Proof.
  intros c ops id evs p H. apply (run_inv (J id)); try assumption.
  - intros q; apply iter_J.
  - intros q d; apply kill_J.
  - intros q n Hq; exact Hq.
Qed.

(* a loop that starts by pruning forgets every issued id that is not alive ... *)
Lemma prune_first_forgets : forall c rest id p, J id p -> K id (iter c (LPrune :: rest) p).
Proof.
  intros c rest id p [H1 H2]. change (iter c (LPrune :: rest) p) with (iter c rest (prune p)).
  apply iter_K. split; [exact H1|exact H2].
Qed.

(* ... for good: it is never tracked again, whatever happens afterwards *)
Definition forgotten_for (ops : list lop) : Prop :=
  forall c p dead id evs, In id dead -> id < next p ->
    ~ In id (ids (tracked (run c ops (iter c ops (kill dead p)) evs))).

Lemma forgotten_prune_first : forall rest, forgotten_for (LPrune :: rest).
Proof.
  intros rest c p dead id evs Hd Hn.
  apply (run_K c (LPrune :: rest) id evs), prune_first_forgets, kill_establishes_J; assumption.
Qed.

Lemma ppr_forgotten : forgotten_for ppr_loop_ops.
Proof. exact (forgotten_prune_first [LSpawnTo]). Qed.

Lemma pr_forgotten : forgotten_for pr_loop_ops.
Proof. exact (forgotten_prune_first [LSpawnFromQueue]). Qed.

(* heartbeats: with the alive-only selector, an id that is not a live tracked worker is never
   reported again — for EVERY loop body, every continuation *)
Lemma beats_exclude : forall c ops id evs p, J id p ->
  Forall (fun out => ~ In id out) (beats c ops HbAlive p evs).
Proof.
  intros c ops id evs; induction evs as [|e evs IH]; intros p HJ; simpl; [constructor|].
  assert (HJ' : J id (apply_ev c ops p e)).
  { destruct e; simpl; [apply kill_J|..]; try exact HJ. apply iter_J, HJ. }
  destruct e; try (apply IH; exact HJ').
  constructor; [|apply IH; exact HJ'].
  destruct HJ as [_ H2]. exact H2.
Qed.

Definition hb_alive_only (sel : hbsel) : Prop :=
  forall p id, In id (hb sel p) -> exists w, In w (tracked p) /\ wid w = id /\ walive w = true.

Lemma hb_alive_only_HbAlive : hb_alive_only HbAlive.
Proof.
  intros p id H. unfold hb, ids in H. apply in_map_iff in H. destruct H as (w & Hw & Hin).
  apply filter_In in Hin. exists w. simpl in Hin. tauto.
Qed.

Definition dead_never_reported_for (ops : list lop) (sel : hbsel) : Prop :=
  forall c p dead id evs, In id dead -> id < next p ->
    Forall (fun out => ~ In id out) (beats c ops sel (kill dead p) evs).

Lemma dead_never_reported_alive : forall ops, dead_never_reported_for ops HbAlive.
Proof. intros ops c p dead id evs Hd Hn. apply beats_exclude, kill_establishes_J; assumption. Qed.

Lemma heartbeats_gen :
  base_reports_active_ids = true /\
  hb_alive_only mtr_hb_sel /\ hb_alive_only ppr_hb_sel /\ hb_alive_only pr_hb_sel /\
  dead_never_reported_for mtr_loop_ops mtr_hb_sel /\
  dead_never_reported_for ppr_loop_ops ppr_hb_sel /\
  dead_never_reported_for pr_loop_ops pr_hb_sel.
Proof.
  split; [reflexivity|].
  repeat split; try exact hb_alive_only_HbAlive; apply dead_never_reported_alive.
Qed.

(* every id ever tracked was issued: ids of reachable pools are below the counter (so the
   hypothesis `id < next p` of the theorems above is met by every tracked worker) *)
Definition ids_issued (p : pool) : Prop := forall id, In id (ids (tracked p)) -> id < next p.

Lemma ids_issued_reachable : forall c ops evs, ids_issued (run c ops (start c) evs).
Proof.
  intros c ops evs. apply (run_inv ids_issued).
  - intros p Hp. unfold iter. revert p Hp. induction ops as [|o ops IH]; intros p Hp; simpl; [exact Hp|].
    apply IH. intros id Hin. destruct (do_op_shape c p o) as (n & [Ht|Ht] & Hn); rewrite Ht, ids_app in Hin;
      apply in_app_or in Hin; destruct Hin as [Hin|Hin]; rewrite Hn.
    + pose proof (Hp id Hin). lia.
    + rewrite fresh_ids in Hin. apply in_seq in Hin. lia.
    + pose proof (Hp id (live_sub_tracked p id Hin)). lia.
    + rewrite fresh_ids in Hin. apply in_seq in Hin. lia.
  - intros p d Hp id Hin. rewrite kill_ids in Hin. exact (Hp id Hin).
  - intros p n Hp; exact Hp.
  - unfold start. intros id Hin. rewrite spawn_n_tracked, ids_app in Hin. simpl in Hin.
    rewrite fresh_ids in Hin. apply in_seq in Hin. rewrite spawn_n_next. simpl. lia.
Qed.

(* ------------------------------------------------------------------ the id source of the spawn code
   For IdFresh the loop with the id source made explicit (iterG/runG/beatsG) IS the loop above. *)
Lemma spawn_nG_fresh : forall n p, spawn_nG IdFresh n p = spawn_n n p.
Proof. induction n as [|n IH]; intros p; simpl; [reflexivity|]. apply IH. Qed.

Lemma do_opG_fresh : forall c p o, do_opG IdFresh c p o = do_op c p o.
Proof.
  intros c p o; destruct o; simpl; try reflexivity.
  - unfold spawn_toG, spawn_to. apply spawn_nG_fresh.
  - unfold scale_upG, scale_up. rewrite !spawn_nG_fresh. reflexivity.
  - unfold spawn_from_queueG, spawn_from_queue. rewrite !spawn_nG_fresh. reflexivity.
Qed.

Lemma iterG_fresh : forall c ops p, iterG IdFresh c ops p = iter c ops p.
Proof.
  intros c ops; unfold iterG, iter; induction ops as [|o ops IH]; intros p; simpl; [reflexivity|].
  rewrite do_opG_fresh. apply IH.
Qed.

Lemma apply_evG_fresh : forall c ops p e, apply_evG IdFresh c ops p e = apply_ev c ops p e.
Proof. intros c ops p e; destruct e; simpl; try reflexivity. apply iterG_fresh. Qed.

Lemma runG_fresh : forall c ops evs p, runG IdFresh c ops p evs = run c ops p evs.
Proof.
  intros c ops evs; unfold runG, run; induction evs as [|e evs IH]; intros p; simpl; [reflexivity|].
  rewrite apply_evG_fresh. apply IH.
Qed.

Lemma beatsG_fresh : forall c ops sel evs p, beatsG IdFresh c ops sel p evs = beats c ops sel p evs.
Proof.
  intros c ops sel evs; induction evs as [|e evs IH]; intros p; simpl; [reflexivity|].
  rewrite apply_evG_fresh, IH. reflexivity.
Qed.

Lemma iterate_ext : forall f g, (forall p, f p = g p) -> forall k p, iterate k f p = iterate k g p.
Proof. intros f g H k; induction k as [|k IH]; intros p; simpl; [reflexivity|]. rewrite IH. apply H. Qed.

Lemma iterateG_fresh : forall c ops k p, iterate k (iterG IdFresh c ops) p = iterate k (iter c ops) p.
Proof. intros c ops; apply iterate_ext. intros p; apply iterG_fresh. Qed.

(* statements over the id-source-explicit loop *)
Definition ppr_restored_forG (s : idsrc) (ops : list lop) : Prop :=
  forall min_slots num_conf cpu evs k,
    let c := ppr_cfg min_slots num_conf cpu in
    let p := runG s c ops (start c) evs in
    let p' := iterate (S k) (iterG s c ops) p in
    no_dead p' = true /\ nlive p' = cap c /\ ntracked p' = cap c.

Definition pr_restored_forG (s : idsrc) (ops : list lop) : Prop :=
  forall min_slots cpu evs k,
    let c := pr_cfg min_slots cpu in
    let p := runG s c ops (start c) evs in
    let p' := iterate (S k) (iterG s c ops) p in
    no_dead p' = true /\ nlive p' <= cap c /\ (nlive p' = cap c \/ queue p' = 0).

Definition mtr_restored_forG (s : idsrc) (ops : list lop) : Prop :=
  forall min_p max_p cpu enf evs k,
    let c := mtr_cfg min_p max_p cpu enf in
    let p := runG s c ops (start c) evs in
    let p' := iterate (S k) (iterG s c ops) p in
    no_dead p' = true /\ mtr_demand c p' <= nlive p'.

Definition mtr_refuted_forG (s : idsrc) (ops : list lop) : Prop :=
  forall enf k,
    let c := mtr_cfg 2 2 4 enf in
    let p := runG s c ops (start c) [EKill [0; 1]; EEnqueue 2] in
    let p' := iterate k (iterG s c ops) p in
    nlive p' = 0 /\ no_dead p' = false /\ mtr_demand c p' = 2.

Definition forgotten_forG (s : idsrc) (ops : list lop) : Prop :=
  forall c p dead id evs, In id dead -> id < next p ->
    ~ In id (ids (tracked (runG s c ops (iterG s c ops (kill dead p)) evs))).

Definition dead_never_reported_forG (s : idsrc) (ops : list lop) (sel : hbsel) : Prop :=
  forall c p dead id evs, In id dead -> id < next p ->
    Forall (fun out => ~ In id out) (beatsG s c ops sel (kill dead p) evs).

(* transfer: whatever holds of the loop with fresh ids holds of the explicit loop when the generated
   id source IS IdFresh (the `s = IdFresh` argument is `eq_refl` only then) *)
Lemma ppr_restored_transfer : forall s ops, s = IdFresh -> ppr_restored_for ops -> ppr_restored_forG s ops.
Proof.
  intros s ops Hs H a b cpu evs k; cbv zeta. subst s. rewrite runG_fresh, iterateG_fresh. apply H.
Qed.

Lemma pr_restored_transfer : forall s ops, s = IdFresh -> pr_restored_for ops -> pr_restored_forG s ops.
Proof.
  intros s ops Hs H a cpu evs k; cbv zeta. subst s. rewrite runG_fresh, iterateG_fresh. apply H.
Qed.

Lemma mtr_restored_transfer : forall s ops, s = IdFresh -> mtr_restored_for ops -> mtr_restored_forG s ops.
Proof.
  intros s ops Hs H a b cpu enf evs k; cbv zeta. subst s. rewrite runG_fresh, iterateG_fresh. apply H.
Qed.

Lemma mtr_refuted_transfer : forall s ops, s = IdFresh -> mtr_refuted_for ops -> mtr_refuted_forG s ops.
Proof.
  intros s ops Hs H enf k; cbv zeta. subst s. rewrite runG_fresh, iterateG_fresh. apply H.
Qed.

Lemma forgotten_transfer : forall s ops, s = IdFresh -> forgotten_for ops -> forgotten_forG s ops.
Proof.
  intros s ops Hs H c p dead id evs Hd Hn. subst s. rewrite runG_fresh, iterG_fresh. apply H; assumption.
Qed.

Lemma dead_never_reported_transfer : forall s ops sel, s = IdFresh ->
  dead_never_reported_for ops sel -> dead_never_reported_forG s ops sel.
Proof.
  intros s ops sel Hs H c p dead id evs Hd Hn. subst s. rewrite beatsG_fresh. apply H; assumption.
Qed.

(* the three facts generated from the spawn code *)
Lemma ids_fresh_gen : mtr_id_src = IdFresh /\ ppr_id_src = IdFresh /\ pr_id_src = IdFresh.
Proof. repeat split; reflexivity. Qed.

Lemma ppr_restored_genG : ppr_restored_forG ppr_id_src ppr_loop_ops.
Proof. exact (ppr_restored_transfer _ _ (proj1 (proj2 ids_fresh_gen)) ppr_restored_gen). Qed.

Lemma ppr_any_stateG : forall c p k,
  let p' := iterate (S k) (iterG ppr_id_src c ppr_loop_ops) p in no_dead p' = true /\ cap c <= nlive p'.
Proof.
  intros c p k; cbv zeta. rewrite (proj1 (proj2 ids_fresh_gen)), iterateG_fresh. apply ppr_any_state.
Qed.

Lemma pr_restored_genG : pr_restored_forG pr_id_src pr_loop_ops.
Proof. exact (pr_restored_transfer _ _ (proj2 (proj2 ids_fresh_gen)) pr_restored_gen). Qed.

Lemma pr_pickupG : forall c p,
  let p' := iterG pr_id_src c pr_loop_ops p in
  nlive p' + queue p' = nlive p + queue p /\
  nlive p' = nlive p + Nat.min (cap c - nlive p) (queue p).
Proof. intros c p; cbv zeta. rewrite (proj2 (proj2 ids_fresh_gen)), iterG_fresh. apply pr_pickup. Qed.

Lemma mtr_verdictG :
  if mtr_loop_prunes then mtr_restored_forG mtr_id_src mtr_loop_ops else mtr_refuted_forG mtr_id_src mtr_loop_ops.
Proof.
  pose proof mtr_verdict as H. destruct mtr_loop_prunes.
  - exact (mtr_restored_transfer _ _ (proj1 ids_fresh_gen) H).
  - exact (mtr_refuted_transfer _ _ (proj1 ids_fresh_gen) H).
Qed.

Lemma mtr_partialG : forall c p, no_dead p = true ->
  let p' := iterG mtr_id_src c mtr_loop_ops p in
  no_dead p' = true /\ mtr_demand c p' <= nlive p' /\ nlive p <= nlive p'.
Proof. intros c p H; cbv zeta. rewrite (proj1 ids_fresh_gen), iterG_fresh. apply mtr_partial, H. Qed.

Lemma mtr_forgotten_if_prunes : if mtr_loop_prunes then forgotten_forG mtr_id_src mtr_loop_ops else True.
Proof.
  unfold mtr_loop_prunes. destruct (lops_eqb mtr_loop_ops [LPrune; LScaleUp]) eqn:E; [|exact I].
  apply lops_eqb_eq in E. rewrite E.
  exact (forgotten_transfer _ _ (proj1 ids_fresh_gen) (forgotten_prune_first [LScaleUp])).
Qed.

Lemma ppr_forgottenG : forgotten_forG ppr_id_src ppr_loop_ops.
Proof. exact (forgotten_transfer _ _ (proj1 (proj2 ids_fresh_gen)) ppr_forgotten). Qed.

Lemma pr_forgottenG : forgotten_forG pr_id_src pr_loop_ops.
Proof. exact (forgotten_transfer _ _ (proj2 (proj2 ids_fresh_gen)) pr_forgotten). Qed.

Lemma heartbeats_genG :
  base_reports_active_ids = true /\
  hb_alive_only mtr_hb_sel /\ hb_alive_only ppr_hb_sel /\ hb_alive_only pr_hb_sel /\
  dead_never_reported_forG mtr_id_src mtr_loop_ops mtr_hb_sel /\
  dead_never_reported_forG ppr_id_src ppr_loop_ops ppr_hb_sel /\
  dead_never_reported_forG pr_id_src pr_loop_ops pr_hb_sel.
Proof.
  destruct heartbeats_gen as (H0 & H1 & H2 & H3 & H4 & H5 & H6).
  destruct ids_fresh_gen as (I1 & I2 & I3).
  repeat split; try assumption.
  - exact (dead_never_reported_transfer _ _ _ I1 H4).
  - exact (dead_never_reported_transfer _ _ _ I2 H5).
  - exact (dead_never_reported_transfer _ _ _ I3 H6).
Qed.

(* ids of reachable pools were issued by the counter — for EVERY id source and loop body *)
Lemma snoc_issued : forall p id0 n' q f, ids_issued p -> id0 < n' -> next p <= n' ->
  ids_issued (mkP (tracked p ++ [mkW id0 true]) n' q f).
Proof.
  intros p id0 n' q f Hi H0 Hn id Hin. cbn [tracked next] in *. rewrite ids_app in Hin.
  apply in_app_or in Hin. destruct Hin as [Hin|Hin].
  - pose proof (Hi id Hin). lia.
  - simpl in Hin. destruct Hin as [Hin|[]]. subst id. exact H0.
Qed.

Lemma spawn_nG_issued : forall s n p, ids_issued p -> Forall (fun id => id < next p) (freed p) ->
  ids_issued (spawn_nG s n p) /\ Forall (fun id => id < next (spawn_nG s n p)) (freed (spawn_nG s n p))
  /\ next p <= next (spawn_nG s n p).
Proof.
  intros s n; induction n as [|n IH]; intros p Hi Hf; simpl; [repeat split; try assumption; lia|].
  assert (X : ids_issued (spawn1G s p) /\ Forall (fun id => id < next (spawn1G s p)) (freed (spawn1G s p))
              /\ next p <= next (spawn1G s p)).
  { unfold spawn1G. destruct s.
    - unfold spawn1. cbn [next freed]. repeat split; [apply snoc_issued; [exact Hi|lia|lia] | |lia].
      eapply Forall_impl; [|exact Hf]. cbn beta. intros a Ha. lia.
    - destruct (freed p) as [|f rest] eqn:Ef.
      + unfold spawn1. cbn [next freed]. rewrite Ef. repeat split; [apply snoc_issued; [exact Hi|lia|lia] |constructor|lia].
      + cbn [next freed]. inversion Hf as [|? ? Hf1 Hf2]; subst.
        repeat split; [apply snoc_issued; [exact Hi|exact Hf1|lia] |exact Hf2|lia]. }
  destruct X as (X1 & X2 & X3). destruct (IH (spawn1G s p) X1 X2) as (Y1 & Y2 & Y3).
  repeat split; try assumption. lia.
Qed.

Definition issuedG (p : pool) : Prop := ids_issued p /\ Forall (fun id => id < next p) (freed p).

Lemma do_opG_issued : forall s c o p, issuedG p -> issuedG (do_opG s c p o).
Proof.
  intros s c o p [Hi Hf]; destruct o; simpl.
  - split.
    + intros id Hin. apply Hi. apply live_sub_tracked. exact Hin.
    + simpl. apply Forall_app. split; [|exact Hf].
      apply Forall_forall. intros id Hin. apply in_rev in Hin. apply Hi.
      unfold ids, dead_of in *. apply in_map_iff in Hin. destruct Hin as (w & Hw & Hin).
      apply filter_In in Hin. apply in_map_iff. exists w. tauto.
  - unfold spawn_toG. destruct (spawn_nG_issued s (cap c - ntracked p) p Hi Hf) as (A & B & _). split; assumption.
  - unfold scale_upG. destruct (enforce c).
    + destruct (spawn_nG_issued s (cap c - ntracked p) p Hi Hf) as (A & B & _). split; assumption.
    + destruct ((ntracked p <? queue p) && (ntracked p <? cap c)).
      * destruct (spawn_nG_issued s (Nat.min (queue p - ntracked p) (cap c - ntracked p)) p Hi Hf) as (A & B & _).
        split; assumption.
      * split; assumption.
  - unfold spawn_from_queueG.
    destruct (spawn_nG_issued s (Nat.min (cap c - ntracked p) (queue p)) p Hi Hf) as (A & B & _).
    split; [exact A | exact B].
Qed.

Lemma ids_issued_reachableG : forall s c ops evs, ids_issued (runG s c ops (start c) evs).
Proof.
  intros s c ops evs.
  assert (G : forall evs p, issuedG p -> issuedG (runG s c ops p evs)).
  { clear evs. intros evs; unfold runG; induction evs as [|e evs IH]; intros p Hp; simpl; [exact Hp|].
    apply IH. destruct e; simpl.
    - destruct Hp as [Hi Hf]. split; [|exact Hf]. intros id Hin. rewrite kill_ids in Hin. exact (Hi id Hin).
    - exact Hp.
    - exact Hp.
    - unfold iterG. clear IH. revert p Hp. induction ops as [|o ops IHo]; intros p Hp; simpl; [exact Hp|].
      apply IHo, do_opG_issued, Hp.
    - exact Hp. }
  apply G. unfold start. rewrite <- spawn_nG_fresh.
  destruct (spawn_nG_issued IdFresh (initial c) (mkP [] 0 0 [])) as (A & B & _).
  - intros id Hin; destruct Hin.
  - constructor.
  - split; assumption.
Qed.

(* what the id source is there for: with recycled ids the heartbeat half of the property FAILS in the
   model — pool of 2, worker 0 dies, one iteration forgets it and hands its id to the replacement,
   the next heartbeat report names id 0 again *)
Lemma recycled_ids_refuted : ~ dead_never_reported_forG IdRecycled [LPrune; LSpawnTo] HbAlive.
Proof.
  intros H.
  assert (X : In 0 [0]) by (left; reflexivity).
  assert (Y : 0 < next (start (ppr_cfg 1 2 4))) by (vm_compute; lia).
  pose proof (H (ppr_cfg 1 2 4) (start (ppr_cfg 1 2 4)) [0] 0 [EIter; EBeat] X Y) as Hf.
  vm_compute in Hf. inversion Hf as [|? ? Hh _]. apply Hh. right. left. reflexivity.
Qed.

Lemma recycled_ids_tracked_again : ~ forgotten_forG IdRecycled [LPrune; LSpawnTo].
Proof.
  intros H.
  assert (X : In 0 [0]) by (left; reflexivity).
  assert (Y : 0 < next (start (ppr_cfg 1 2 4))) by (vm_compute; lia).
  apply (H (ppr_cfg 1 2 4) (start (ppr_cfg 1 2 4)) [0] 0 [] X Y). vm_compute. right. left. reflexivity.
Qed.

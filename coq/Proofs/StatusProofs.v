(* Proofs/StatusProofs.v — lemmas behind Props/C01.v (and reused by C02, C10). *)
From Coq Require Import List Bool Arith Lia.
Import ListNotations.
From PV Require Import Model.Status Model.StatusDef gen.StatusTable_gen Model.StatusImpl
  Model.Lifecycle.

(* ---------- the generated table is the documented one ---------- *)

Lemma gen_flags_documented : forall s,
  is_final (gen_def (Some s)) = doc_final s /\
  available_for_run (gen_def (Some s)) = doc_available s /\
  requires_ownership (gen_def (Some s)) = doc_owned s /\
  acquires_ownership (gen_def (Some s)) = doc_acquires s /\
  releases_ownership (gen_def (Some s)) = negb (doc_owned s) /\
  overrides_ownership (gen_def (Some s)) = doc_recovery s.
Proof. intros s; destruct s; vm_compute; repeat split. Qed.

Lemma gen_edges_documented : forall a b,
  mem_status b (allowed (gen_def (Some a))) = doc_edge a b.
Proof. intros a b; destruct a; destruct b; vm_compute; reflexivity. Qed.

Lemma gen_start_documented : forall b,
  mem_status b (allowed (gen_def None)) = status_eqb b doc_initial.
Proof. intros b; destruct b; vm_compute; reflexivity. Qed.

Lemma impl_is_doc : forall cur req rid,
  impl_transition cur req rid = doc_transition cur req rid.
Proof.
  intros cur req rid.
  destruct cur as [[s o t]|].
  - destruct s; destruct req; destruct rid as [r|]; destruct o as [o|];
      cbn; try reflexivity; destruct (Nat.eqb r o); reflexivity.
  - destruct req; destruct rid; reflexivity.
Qed.

(* ---------- properties of the documented step ---------- *)

Lemma doc_final_no_edge : forall a b, doc_final a = true -> doc_edge a b = false.
Proof. intros a b; destruct a; destruct b; vm_compute; congruence. Qed.

Lemma doc_finals_absorbing : forall r req rid,
  doc_final (st r) = true -> doc_transition (Some r) req rid = TErr ETransition.
Proof.
  intros r req rid H. unfold doc_transition.
  rewrite (doc_final_no_edge _ req H). reflexivity.
Qed.

Lemma doc_success_follows_edge : forall r req rid s' o',
  doc_transition (Some r) req rid = TOk s' o' -> s' = req /\ doc_edge (st r) req = true.
Proof.
  intros r req rid s' o'. unfold doc_transition.
  destruct (doc_edge (st r) req); cbn [negb]; [|discriminate].
  destruct (doc_recovery req); [intros H; inversion H; auto|].
  destruct (doc_owned (st r) && negb (orunner_eqb rid (owner r))); [discriminate|].
  destruct (doc_acquires req).
  - destruct rid; [intros H; inversion H; auto|discriminate].
  - destruct (doc_owned req); intros H; inversion H; auto.
Qed.

Lemma orunner_eqb_eq : forall a b, orunner_eqb a b = true <-> a = b.
Proof.
  intros [a|] [b|]; cbn; split; intros H; try congruence; try reflexivity.
  - apply Nat.eqb_eq in H; congruence.
  - inversion H; apply Nat.eqb_refl.
Qed.

Lemma doc_ownership_enforced : forall r req rid,
  doc_owned (st r) = true -> rid <> owner r -> doc_recovery req = false ->
  exists e, doc_transition (Some r) req rid = TErr e.
Proof.
  intros r req rid Ho Hne Hrec. unfold doc_transition.
  destruct (doc_edge (st r) req); cbn [negb]; [|eexists; reflexivity].
  rewrite Hrec, Ho. cbn [andb].
  destruct (orunner_eqb rid (owner r)) eqn:E.
  - apply orunner_eqb_eq in E; contradiction.
  - cbn. eexists; reflexivity.
Qed.

Lemma doc_recovery_bypasses : forall r req rid,
  doc_edge (st r) req = true -> doc_recovery req = true ->
  doc_transition (Some r) req rid = TOk req None.
Proof. intros r req rid He Hr. unfold doc_transition. rewrite He, Hr. reflexivity. Qed.

Definition doc_owner_after (r : srec) (req : status) (rid : option runner) : option runner :=
  if doc_acquires req then rid else if doc_owned req then owner r else None.

Lemma doc_owner_after_ok : forall r req rid s' o',
  doc_transition (Some r) req rid = TOk s' o' -> o' = doc_owner_after r req rid.
Proof.
  intros r req rid s' o'. unfold doc_transition, doc_owner_after.
  destruct (doc_edge (st r) req); cbn [negb]; [|discriminate].
  destruct (doc_recovery req) eqn:Hr.
  - intros H; inversion H; subst. destruct s'; cbn in *; congruence.
  - destruct (doc_owned (st r) && negb (orunner_eqb rid (owner r))); [discriminate|].
    destruct (doc_acquires req).
    + destruct rid; [intros H; inversion H; auto|discriminate].
    + destruct (doc_owned req); intros H; inversion H; auto.
Qed.

(* a holder exists after a successful claim: PENDING is only entered with a runner id *)
Lemma doc_pending_has_owner : forall cur rid s' o',
  doc_transition cur PENDING rid = TOk s' o' -> exists x, rid = Some x /\ o' = Some x.
Proof.
  intros cur rid s' o'. unfold doc_transition. destruct cur as [r|].
  - destruct (doc_edge (st r) PENDING); cbn [negb]; [|discriminate].
    cbn [doc_recovery doc_acquires].
    destruct (doc_owned (st r) && negb (orunner_eqb rid (owner r))); [discriminate|].
    destruct rid as [x|]; [|discriminate]. intros H; inversion H; eauto.
  - cbn. discriminate.
Qed.

(* ---------- store lemmas ---------- *)

Lemma lookup_upsert_same : forall i r s, lookup i (upsert i r s) = Some r.
Proof.
  intros i r s; induction s as [|[j q] rest IH]; cbn.
  - rewrite Nat.eqb_refl; reflexivity.
  - destruct (Nat.eqb i j) eqn:E; cbn; [rewrite Nat.eqb_refl|rewrite E]; auto.
Qed.

Lemma lookup_upsert_other : forall i j r s, i <> j -> lookup i (upsert j r s) = lookup i s.
Proof.
  intros i j r s Hne; induction s as [|[k q] rest IH]; cbn.
  - destruct (Nat.eqb i j) eqn:E; [apply Nat.eqb_eq in E; contradiction|reflexivity].
  - destruct (Nat.eqb j k) eqn:E; cbn.
    + apply Nat.eqb_eq in E; subst k.
      destruct (Nat.eqb i j) eqn:E2; [apply Nat.eqb_eq in E2; contradiction|reflexivity].
    + destruct (Nat.eqb i k); auto.
Qed.

(* ---------- a refused change leaves the system untouched ---------- *)

Lemma step_error_unchanged : forall T s i to rid e s',
  step T s (OSet i to rid) = (s', OutErr e) -> s' = s.
Proof.
  intros T s i to rid e s'. cbn.
  destruct (lookup i (recs s)) as [r|]; [|intros H; inversion H].
  destruct (T (Some r) to rid); intros H; inversion H; reflexivity.
Qed.

Lemma step_key_unchanged : forall T s o s', step T s o = (s', OutKey) -> s' = s.
Proof.
  intros T s o s'. destruct o as [i c|i to rid]; cbn.
  - destruct (lookup i (recs s)); intros H; inversion H.
  - destruct (lookup i (recs s)) as [r|]; [|intros H; inversion H; reflexivity].
    destruct (T (Some r) to rid); intros H; inversion H.
Qed.

(* ---------- every observable sequence is a path from REGISTERED ---------- *)

Definition HistInv (s : sys) : Prop :=
  forall i, match lookup i (recs s) with
            | None => hist i (log s) = []
            | Some r => exists rest, hist i (log s) = st r :: rest /\ rpath (st r :: rest)
            end.

Lemma HistInv_init : HistInv sys0.
Proof. intros i; reflexivity. Qed.

(* the only thing the induction needs from the step function *)
Definition edge_respecting (T : option srec -> status -> option runner -> tres) : Prop :=
  forall r req rid s' o', T (Some r) req rid = TOk s' o' -> s' = req /\ doc_edge (st r) req = true.

Lemma HistInv_step : forall T, edge_respecting T ->
  forall s o, HistInv s -> HistInv (fst (step T s o)).
Proof.
  intros T HT s o Hinv. destruct o as [i c|i to rid]; cbn.
  - destruct (lookup i (recs s)) eqn:L; cbn; [exact Hinv|].
    intros j. cbn. destruct (Nat.eq_dec j i) as [->|Hne].
    + rewrite lookup_upsert_same, Nat.eqb_refl. cbn.
      specialize (Hinv i). rewrite L in Hinv. rewrite Hinv.
      exists []; split; [reflexivity|constructor].
    + rewrite lookup_upsert_other by assumption.
      destruct (Nat.eqb j i) eqn:E; [apply Nat.eqb_eq in E; contradiction|]. apply Hinv.
  - destruct (lookup i (recs s)) as [r|] eqn:L; cbn; [|exact Hinv].
    destruct (T (Some r) to rid) as [s' o'|e] eqn:ET; cbn; [|exact Hinv].
    destruct (HT _ _ _ _ _ ET) as [-> Hedge].
    intros j. cbn. destruct (Nat.eq_dec j i) as [->|Hne].
    + rewrite lookup_upsert_same, Nat.eqb_refl. cbn.
      specialize (Hinv i). rewrite L in Hinv. destruct Hinv as [rest [Hh Hp]].
      rewrite Hh. exists (st r :: rest); split; [reflexivity|].
      constructor; assumption.
    + rewrite lookup_upsert_other by assumption.
      destruct (Nat.eqb j i) eqn:E; [apply Nat.eqb_eq in E; contradiction|]. apply Hinv.
Qed.

Lemma HistInv_exec : forall T, edge_respecting T ->
  forall ops s, HistInv s -> HistInv (exec T s ops).
Proof.
  intros T HT ops; induction ops as [|o ops IH]; intros s H; cbn; [exact H|].
  apply IH. apply HistInv_step; assumption.
Qed.

Lemma doc_edge_respecting : edge_respecting doc_transition.
Proof. intros r req rid s' o'; apply doc_success_follows_edge. Qed.

Lemma impl_edge_respecting : edge_respecting impl_transition.
Proof. intros r req rid s' o'; rewrite impl_is_doc; apply doc_success_follows_edge. Qed.

(* finals are never left: in a path, a final status can only be the most recent entry *)
Lemma rpath_final_is_last : forall b a rest, rpath (b :: a :: rest) -> doc_final a = false.
Proof.
  intros b a rest H; inversion H; subst.
  destruct (doc_final a) eqn:F; [|reflexivity].
  match goal with He : doc_edge a b = true |- _ =>
    rewrite (doc_final_no_edge a b F) in He; discriminate end.
Qed.

Lemma rpath_tail : forall b a rest, rpath (b :: a :: rest) -> rpath (a :: rest).
Proof. intros b a rest H; inversion H; assumption. Qed.

Lemma rpath_no_final_inside : forall l b, rpath (b :: l) -> forallb (fun a => negb (doc_final a)) l = true.
Proof.
  induction l as [|a rest IH]; intros b H; cbn; [reflexivity|].
  rewrite (rpath_final_is_last _ _ _ H). cbn. apply (IH a). eapply rpath_tail; eassumption.
Qed.

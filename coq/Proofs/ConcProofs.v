(* Proofs/ConcProofs.v — lemmas behind Props/C02.v *)
From Coq Require Import List Bool Arith Lia.
Import ListNotations.
From PV Require Import Model.Status Model.Lifecycle Model.Conc Proofs.StatusProofs.

(* ---------- pure graph lemmas ---------- *)

Lemma pending_only_from_available : forall a,
  doc_edge a PENDING = true -> doc_available a = true /\ doc_owned a = false.
Proof. intros a; destruct a; vm_compute; intuition discriminate. Qed.

Lemma rpath_claim_follows_release : forall a rest,
  rpath (PENDING :: a :: rest) -> doc_available a = true /\ doc_owned a = false.
Proof. intros a rest H; inversion H; subst. now apply pending_only_from_available. Qed.

Lemma running_only_from_pending : forall a, doc_edge a RUNNING = true -> a = PENDING.
Proof. intros a; destruct a; vm_compute; intros H; try discriminate; reflexivity. Qed.

Lemma zone_leaves_through_exit : forall a b,
  doc_edge a b = true -> in_zone a = true -> in_zone b = false -> doc_final b = false ->
  zone_exit b = true.
Proof. intros a b; destruct a; destruct b; vm_compute; intuition discriminate. Qed.

(* Lists are most-recent-first.  If nothing in `mid` is a zone exit or final, the zone propagates
   from z (older) through all of mid. *)
Lemma zone_propagates : forall mid z rest,
  rpath (mid ++ z :: rest) -> in_zone z = true ->
  (forall x, In x mid -> zone_exit x = false /\ doc_final x = false) ->
  forall x, In x mid -> in_zone x = true.
Proof.
  induction mid as [|m mid IH]; intros z rest Hp Hz Hne x Hx; [contradiction|].
  assert (rpath (mid ++ z :: rest)) as Hp'.
  { cbn in Hp. destruct mid; cbn in *; eapply rpath_tail; eassumption. }
  assert (forall y, In y mid -> in_zone y = true) as Hmid.
  { intros y Hy. eapply IH; try eassumption. intros y' Hy'. apply Hne. now right. }
  destruct Hx as [<-|Hx]; [|now apply Hmid].
  destruct (Hne m (or_introl eq_refl)) as [Hnx Hnf].
  destruct (in_zone m) eqn:Em; [reflexivity|exfalso].
  destruct mid as [|p mid'].
  - cbn in Hp. inversion Hp as [|? ? ? Hp2 Hedge]; subst.
    pose proof (zone_leaves_through_exit _ _ Hedge Hz Em Hnf). congruence.
  - cbn in Hp. inversion Hp as [|? ? ? Hp2 Hedge]; subst.
    pose proof (zone_leaves_through_exit _ _ Hedge (Hmid p (or_introl eq_refl)) Em Hnf). congruence.
Qed.

Lemma existsb_false_forall : forall (A : Type) (f : A -> bool) l,
  existsb f l = false -> forall x, In x l -> f x = false.
Proof.
  intros A f l; induction l as [|a l IH]; intros H x Hx; [contradiction|].
  cbn in H. apply orb_false_iff in H. destruct H as [Ha Hl].
  destruct Hx as [<-|Hx]; [assumption|now apply IH].
Qed.

(* between two RUNNING entries of one path there is a KILLED, RETRY or RUNNING_RECOVERY entry *)
Lemma two_runs_need_exit : forall mid rest,
  rpath (RUNNING :: mid ++ RUNNING :: rest) -> existsb zone_exit mid = true.
Proof.
  intros mid rest Hp. destruct (existsb zone_exit mid) eqn:E; [reflexivity|exfalso].
  pose proof (existsb_false_forall _ _ _ E) as Hne.
  pose proof (rpath_no_final_inside _ _ Hp) as Hnf.
  rewrite forallb_forall in Hnf.
  assert (forall x, In x mid -> zone_exit x = false /\ doc_final x = false) as H1.
  { intros x Hx. split; [now apply Hne|].
    specialize (Hnf x (in_or_app _ _ _ (or_introl Hx))). now apply negb_true_iff in Hnf. }
  assert (rpath (mid ++ RUNNING :: rest)) as Hp'.
  { destruct mid; cbn in *; eapply rpath_tail; exact Hp. }
  pose proof (zone_propagates mid RUNNING rest Hp' eq_refl H1) as Hz.
  destruct mid as [|p mid'].
  - cbn in Hp. inversion Hp as [|? ? ? _ Hedge]; subst.
    apply running_only_from_pending in Hedge. discriminate.
  - cbn in Hp. inversion Hp as [|? ? ? _ Hedge]; subst.
    apply running_only_from_pending in Hedge. subst p.
    specialize (Hz PENDING (or_introl eq_refl)). discriminate.
Qed.

(* ---------- the interleaved machine, atomic mode ---------- *)

Definition TsInv (s : sys) : Prop := forall i r, lookup i (recs s) = Some r -> ts r <= clock s.

Lemma TsInv_step : forall T s o, TsInv s -> TsInv (fst (step T s o)).
Proof.
  intros T s o H. destruct o as [i c|i to rid]; cbn.
  - destruct (lookup i (recs s)) eqn:L; cbn; [exact H|].
    intros j r. cbn. destruct (Nat.eq_dec j i) as [->|ne].
    + rewrite lookup_upsert_same. intros X; inversion X; subst; cbn; lia.
    + rewrite lookup_upsert_other by assumption. intros X. specialize (H j r X). lia.
  - destruct (lookup i (recs s)) as [r0|] eqn:L; cbn; [|exact H].
    destruct (T (Some r0) to rid) as [s' o'|e]; cbn; [|exact H].
    intros j r. cbn. destruct (Nat.eq_dec j i) as [->|ne].
    + rewrite lookup_upsert_same. intros X; inversion X; subst; cbn; lia.
    + rewrite lookup_upsert_other by assumption. intros X. specialize (H j r X). lia.
Qed.

Lemma TsInv_exec : forall T ops s, TsInv s -> TsInv (exec T s ops).
Proof.
  intros T ops; induction ops as [|o ops IH]; intros s H; cbn; [exact H|].
  apply IH. now apply TsInv_step.
Qed.

Lemma TsInv_init : TsInv sys0.
Proof. intros i r H; cbn in H; discriminate. Qed.

Definition ClaimInv (w : cw) : Prop :=
  NoDup (claims w) /\
  (forall i v, In (i, v) (claims w) -> exists r, lookup i (recs (csys w)) = Some r /\ v < ts r).

Definition WInv (w : cw) : Prop := HistInv (csys w) /\ TsInv (csys w) /\ ClaimInv w /\ cpend w = [].

(* commit = the sequential lifecycle step, plus the claim log *)
Lemma commit_csys : forall w pend i r to rid,
  lookup i (recs (csys w)) = Some r ->
  csys (commit w pend i r to rid) = fst (step doc_transition (csys w) (OSet i to rid)).
Proof.
  intros w pend i r to rid L. unfold commit, step. rewrite L.
  destruct (doc_transition (Some r) to rid); reflexivity.
Qed.

Lemma commit_inv : forall w i r to rid,
  WInv w -> lookup i (recs (csys w)) = Some r -> WInv (commit w (cpend w) i r to rid).
Proof.
  intros w i r to rid (Hh & Ht & (Hnd & Hc) & Hp) L.
  split; [|split; [|split]].
  - rewrite (commit_csys w _ i r to rid L). apply HistInv_step; [exact doc_edge_respecting|assumption].
  - rewrite (commit_csys w _ i r to rid L). now apply TsInv_step.
  - unfold commit. destruct (doc_transition (Some r) to rid) as [s' o'|e] eqn:ET; cbn.
    + assert (forall j v, In (j, v) (claims w) ->
               exists r', lookup j (upsert i {| st := s'; owner := o'; ts := S (clock (csys w)) |} (recs (csys w))) = Some r' /\ v < ts r') as Hold.
      { intros j v Hin. destruct (Hc j v Hin) as [r' [Hl Hv]].
        destruct (Nat.eq_dec j i) as [->|ne].
        - rewrite lookup_upsert_same. eexists; split; [reflexivity|]. cbn.
          rewrite L in Hl. inversion Hl; subst. specialize (Ht i r' L). lia.
        - rewrite lookup_upsert_other by assumption. eauto. }
      destruct (is_pending to).
      * split.
        -- constructor; [|assumption]. intros Hin. destruct (Hc i (ts r) Hin) as [r' [Hl Hv]].
           rewrite L in Hl. inversion Hl; subst. lia.
        -- intros j v [He|Hin]; [|cbn; now apply Hold].
           inversion He; subst. cbn. rewrite lookup_upsert_same. eexists; split; [reflexivity|]. cbn.
           specialize (Ht j r L). lia.
      * split; [assumption|]. intros j v Hin. cbn. now apply Hold.
    + split; assumption.
  - unfold commit. destruct (doc_transition (Some r) to rid); cbn; assumption.
Qed.

Lemma conc_step_inv : forall w s, WInv w -> WInv (conc_step true w s).
Proof.
  intros w s H. destruct s as [a i to rid|a]; cbn.
  - destruct (lookup i (recs (csys w))) as [r|] eqn:L; [|exact H]. now apply commit_inv.
  - destruct H as (Hh & Ht & Hc & Hp). rewrite Hp. cbn. repeat split; try assumption; apply Hc.
Qed.

Lemma conc_run_inv : forall l w, WInv w -> WInv (conc_run true w l).
Proof.
  induction l as [|s l IH]; intros w H; cbn; [exact H|]. apply IH. now apply conc_step_inv.
Qed.

Lemma WInv_init : forall ops0, WInv (cw_of ops0).
Proof.
  intros ops0. unfold cw_of. split; [|split; [|split]]; cbn.
  - apply HistInv_exec; [exact doc_edge_respecting|exact HistInv_init].
  - apply TsInv_exec. exact TsInv_init.
  - split; [constructor|intros i v []].
  - reflexivity.
Qed.

Lemma conc_exclusive : forall ops0 steps,
  let w := conc_run true (cw_of ops0) steps in HistInv (csys w) /\ NoDup (claims w).
Proof.
  intros ops0 steps. pose proof (conc_run_inv steps (cw_of ops0) (WInv_init ops0)) as H.
  split; [apply H|apply H].
Qed.

(* ---------- without atomicity: two runners claim from the same record ---------- *)
Lemma split_transition_two_claims :
  exists steps, let w := conc_run false (cw_of [ORegister 0 None]) steps in
                ~ NoDup (claims w) /\
                hist 0 (log (csys w)) = [PENDING; PENDING; REGISTERED].
Proof.
  exists [ATrans 1 0 PENDING (Some 1); ATrans 2 0 PENDING (Some 2); AWrite 1; AWrite 2].
  vm_compute. split; [|reflexivity]. intros H. inversion H as [|? ? Hn _]; subst. apply Hn. now left.
Qed.

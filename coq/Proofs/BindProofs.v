(* Proofs/BindProofs.v — every spelling of a call binds to the same argument map. *)
From Coq Require Import List NArith Bool Lia.
Import ListNotations.
From PV Require Import Model.Bind.
Open Scope N_scope.

Lemma bind_go_spelled : forall c sig args pos kws, apply_defaults c = true ->
  spelled sig args pos kws -> bind_go c sig pos kws = Some (combine (map pname sig) args).
Proof.
  intros c sig args pos kws Hd Hs. induction Hs as [kws|p sig v args pos kws Hk Hl Hs IH|p sig v args kws Hl Hs IH|p sig v args kws Hl Hdef Hs IH].
  - reflexivity.
  - cbn [bind_go]. rewrite Hk, Hl, IH. reflexivity.
  - cbn [bind_go]. rewrite Hl, IH. reflexivity.
  - cbn [bind_go]. rewrite Hl, Hdef, Hd, IH. reflexivity.
Qed.

Lemma bind_spelled : forall c sig args pos kws, apply_defaults c = true -> kws_ok sig kws ->
  spelled sig args pos kws -> bind c sig pos kws = Some (combine (map pname sig) args).
Proof.
  intros c sig args pos kws Hd Hok Hs. unfold bind. unfold kws_ok in Hok. rewrite Hok.
  apply bind_go_spelled; assumption.
Qed.

(* positional / keyword / defaults-omitted spellings of one call bind to the same map *)
Lemma bind_canonical : forall c sig args pos1 kws1 pos2 kws2, apply_defaults c = true ->
  kws_ok sig kws1 -> kws_ok sig kws2 ->
  spelled sig args pos1 kws1 -> spelled sig args pos2 kws2 ->
  bind c sig pos1 kws1 = bind c sig pos2 kws2 /\ bind c sig pos1 kws1 = Some (combine (map pname sig) args).
Proof.
  intros c sig args pos1 kws1 pos2 kws2 Hd Ho1 Ho2 Hs1 Hs2.
  rewrite (bind_spelled c sig args pos1 kws1 Hd Ho1 Hs1), (bind_spelled c sig args pos2 kws2 Hd Ho2 Hs2). auto.
Qed.

(* a successful bind is the binding of the call it spells: soundness of the specification *)
Lemma bind_go_sound : forall c sig pos kws m, apply_defaults c = true ->
  bind_go c sig pos kws = Some m -> map fst m = map pname sig /\ spelled sig (map snd m) pos kws.
Proof.
  intros c sig. induction sig as [|p sig IH]; intros pos kws m Hd Hb; cbn [bind_go] in Hb.
  - destruct pos; [|discriminate]. inversion Hb; subst. split; [reflexivity|constructor].
  - destruct pos as [|v pos].
    + destruct (lookupN (pname p) kws) as [v|] eqn:El.
      * destruct (bind_go c sig [] kws) as [m'|] eqn:Eg; [|discriminate]. inversion Hb; subst.
        destruct (IH [] kws m' Hd Eg) as [Hn Hs]. cbn. split; [f_equal; exact Hn|].
        apply sp_kw; assumption.
      * destruct (pdefault p) as [d|] eqn:Ed; [|discriminate]. rewrite Hd in Hb.
        destruct (bind_go c sig [] kws) as [m'|] eqn:Eg; [|discriminate]. inversion Hb; subst.
        destruct (IH [] kws m' Hd Eg) as [Hn Hs]. cbn. split; [f_equal; exact Hn|].
        apply sp_default; assumption.
    + destruct (kwonly p) eqn:Ek; [discriminate|].
      destruct (lookupN (pname p) kws) eqn:El; [discriminate|].
      destruct (bind_go c sig pos kws) as [m'|] eqn:Eg; [|discriminate]. inversion Hb; subst.
      destruct (IH pos kws m' Hd Eg) as [Hn Hs]. cbn. split; [f_equal; exact Hn|].
      apply sp_pos; assumption.
Qed.

(* without apply_defaults the omitted-default spelling binds to a different map *)
Lemma bind_without_defaults_refuted : forall c, apply_defaults c = false ->
  exists sig args pos1 kws1 pos2 kws2,
    kws_ok sig kws1 /\ kws_ok sig kws2 /\ spelled sig args pos1 kws1 /\ spelled sig args pos2 kws2 /\
    bind c sig pos1 kws1 <> bind c sig pos2 kws2.
Proof.
  intros c Hd.
  exists [{| pname := 1; kwonly := false; pdefault := Some 7 |}], [7], [7], [], [], [].
  repeat split.
  - apply sp_pos; [reflexivity|reflexivity|constructor].
  - apply sp_default; [reflexivity|reflexivity|constructor].
  - unfold bind. cbn. rewrite Hd. discriminate.
Qed.

(* Proofs/MonitorProofs.v — lemmas for C20 (Model/Monitor.v, gen/Routes_gen.v). *)
From Coq Require Import String List Bool Arith ZArith Lia Permutation.
Import ListNotations.
From PV Require Import Model.Monitor gen.Routes_gen gen.ReadImpl_gen.

(* ------------------------------------------------------------------ read-only API methods *)
Lemma read_prim_state : forall s c, read_only (c_api c) = true -> fst (prim s c) = s.
Proof.
  intros s [a n l] H; destruct a; simpl in H; try discriminate; cbn [prim c_api c_n c_l]; try reflexivity.
  all: try (destruct (alookup n (status s)) as [[? ?]|]; reflexivity).
Qed.

Lemma mutator_changes_something : forall a, read_only a = false ->
  exists s c, c_api c = a /\ fst (prim s c) <> s.
Proof.
  intros a H.
  exists (mkSys [1] [(1, (0, None))] [1] [(1, 1)] [(1, 1)] [(1, [0])] [(1, 1)] [1] [(1, 1)] [(1, 1)] [(1, 1)]).
  exists (mkCall a 2 [3]).
  split; [reflexivity|].
  destruct a; simpl in H; try discriminate; cbn; intro E; discriminate E.
Qed.

(* ------------------------------------------------------------------ handlers *)
Lemma uses_weaken : forall (P Q : api -> Prop) p, (forall a, P a -> Q a) -> uses P p -> uses Q p.
Proof.
  intros P Q p HPQ H; induction H as [| | c k Hc Hk IH]; constructor; auto.
Qed.

Lemma run_reads_state : forall p,
  uses (fun a => read_only a = true) p -> forall s, fst (run p s) = s.
Proof.
  intros p H; induction H as [| | c k Hc Hk IH]; intros s; cbn [run]; try reflexivity.
  pose proof (read_prim_state s c Hc) as E.
  destruct (prim s c) as [s' o]; cbn [fst] in E; subst s'.
  apply IH.
Qed.

Lemma forallb_In_read : forall l a, forallb read_only l = true -> In a l -> read_only a = true.
Proof. intros l a H Hin; rewrite forallb_forall in H; auto. Qed.

Lemma route_handler_state : forall r, route_reads_only r = true ->
  forall p, uses (fun a => In a (r_reach r)) p -> forall s, fst (run p s) = s.
Proof.
  intros r Hr p Hp s; apply run_reads_state.
  apply (uses_weaken (fun a => In a (r_reach r))); [|exact Hp].
  intros a Ha; exact (forallb_In_read _ _ Hr Ha).
Qed.

(* ------------------------------------------------------------------ the generated table *)
Lemma gen_routes_ok : routes_ok gen_routes = true.
Proof. vm_compute. reflexivity. Qed.

Lemma routes_ok_plain : forall rs r, routes_ok rs = true -> In r rs -> r_qv r = false ->
  route_reads_only r = true.
Proof.
  intros rs r H Hin Hq; unfold routes_ok in H; apply andb_prop in H; destruct H as [H _].
  rewrite forallb_forall in H; specialize (H r Hin); rewrite Hq in H; exact H.
Qed.

Lemma routes_ok_qv : forall rs r, routes_ok rs = true -> In r rs -> r_qv r = true ->
  route_qv_ok r = true.
Proof.
  intros rs r H Hin Hq; unfold routes_ok in H; apply andb_prop in H; destruct H as [H _].
  rewrite forallb_forall in H; specialize (H r Hin); rewrite Hq in H; exact H.
Qed.

Lemma gen_get_routes_read_only : forall r, In r gen_routes -> r_qv r = false ->
  forall p, uses (fun a => In a (r_reach r)) p -> forall s, fst (run p s) = s.
Proof.
  intros r Hin Hq; apply route_handler_state; exact (routes_ok_plain _ _ gen_routes_ok Hin Hq).
Qed.

Lemma gen_at_most_one_queue_view : length (filter r_qv gen_routes) <= 1.
Proof.
  pose proof gen_routes_ok as H; unfold routes_ok in H; apply andb_prop in H; destruct H as [_ H].
  apply Nat.leb_le; exact H.
Qed.

(* a drain-shaped queue view goes with exactly one queue-view route and vice versa *)
Definition shape_matches_table : bool :=
  match gen_qv with
  | QVRead _ => Nat.eqb (length (filter r_qv gen_routes)) 0
  | QVDrain _ _ _ _ _ => Nat.eqb (length (filter r_qv gen_routes)) 1
  end.

Lemma gen_shape_matches_table : shape_matches_table = true.
Proof. vm_compute. reflexivity. Qed.

(* ------------------------------------------------------------------ queue view: restoring shapes *)
Lemma set_queue_same : forall s, set_queue s (queue s) = s.
Proof. intros []; reflexivity. Qed.

Lemma pop_loop_outside : forall g recs q n popped looked, n = length q ->
  pop_loop false g recs n q popped looked = ([], popped ++ q, looked ++ q, true).
Proof.
  intros g recs q; induction q as [|i q IH]; intros n popped looked Hn; subst n; cbn [pop_loop length].
  - rewrite !app_nil_r; reflexivity.
  - rewrite (IH (length q) (popped ++ [i]) (looked ++ [i]) eq_refl), <- !app_assoc; reflexivity.
Qed.

Lemma pop_loop_guarded : forall recs q n popped looked, n = length q ->
  exists looked', pop_loop true true recs n q popped looked = ([], popped ++ q, looked', true).
Proof.
  intros recs q; induction q as [|i q IH]; intros n popped looked Hn; subst n; cbn [pop_loop length].
  - exists looked; rewrite app_nil_r; reflexivity.
  - destruct (memb i recs).
    + destruct (IH (length q) (popped ++ [i]) (looked ++ [i]) eq_refl) as [l' E].
      exists l'; rewrite E, <- app_assoc; reflexivity.
    + destruct (IH (length q) (popped ++ [i]) looked eq_refl) as [l' E].
      exists l'; rewrite E, <- app_assoc; reflexivity.
Qed.

Lemma restoring_sound : forall sh, qv_restoring sh = true ->
  forall s limit, fst (qv_run sh limit s) = s.
Proof.
  intros [g | all inside guarded rr fin] H s limit; cbn [qv_run fst]; [reflexivity|].
  cbn [qv_restoring] in H.
  destruct all; [|discriminate]; cbn [andb] in H.
  destruct inside.
  - (* lookups inside the loop: must be guarded and re-route the popped ids *)
    destruct guarded, rr; cbn in H; try discriminate.
    destruct (pop_loop_guarded (records s) (queue s) (length (queue s)) [] [] eq_refl) as [l' E].
    rewrite E; cbn; apply set_queue_same.
  - rewrite (pop_loop_outside guarded (records s) (queue s) (length (queue s)) [] [] eq_refl).
    destruct rr; cbn in H; try discriminate; cbn; apply set_queue_same.
Qed.

(* every other shape is refuted by one of two tiny systems *)
Definition witness_long : sys := mk_qsys [1; 2; 3] [1; 2; 3].     (* queue longer than limit 2 *)
Definition witness_purged : sys := mk_qsys [1; 2; 3] [1; 3].      (* record of id 2 purged     *)

Lemma nonrestoring_refuted : forall sh, qv_restoring sh = false ->
  queue (fst (qv_run sh 2 witness_long)) <> queue witness_long \/
  queue (fst (qv_run sh 5 witness_purged)) <> queue witness_purged.
Proof.
  intros [g | all inside guarded rr fin] H; [discriminate|].
  destruct all, inside, guarded, rr, fin; cbn in H; try discriminate;
    first [left; vm_compute; intro E; discriminate E | right; vm_compute; intro E; discriminate E].
Qed.

Lemma restoring_iff : forall sh,
  qv_restoring sh = true <-> (forall s limit, fst (qv_run sh limit s) = s).
Proof.
  intros sh; split; [apply restoring_sound|].
  intros H; destruct (qv_restoring sh) eqn:E; [reflexivity|exfalso].
  destruct (nonrestoring_refuted sh E) as [N | N]; apply N; rewrite H; reflexivity.
Qed.

(* ------------------------------------------------------------------ queue view: the drain-[limit] family *)
(* with every record present the pop loop takes exactly the first n ids *)
Lemma pop_loop_present : forall inside g recs n q popped looked,
  forallb (fun i => memb i recs) q = true ->
  pop_loop inside g recs n q popped looked
  = (skipn n q, popped ++ firstn n q, looked ++ firstn n q, true).
Proof.
  intros inside g recs n; induction n as [|n IH]; intros q popped looked Hall.
  - destruct q; cbn; rewrite !app_nil_r; reflexivity.
  - destruct q as [|i q]; cbn [pop_loop skipn firstn].
    + rewrite !app_nil_r; reflexivity.
    + cbn [forallb] in Hall; apply andb_prop in Hall; destruct Hall as [Hi Hq].
      rewrite Hi. destruct inside; rewrite (IH q _ _ Hq), <- !app_assoc; reflexivity.
Qed.

(* reorder: a view that pops only min(limit, size) messages and puts them back rotates the queue *)
Lemma drain_limit_rotates : forall inside g rr fin s limit, rr <> RNone ->
  forallb (fun i => memb i (records s)) (queue s) = true ->
  let n := Z.to_nat (Z.min limit (Z.of_nat (length (queue s)))) in
  queue (fst (qv_run (QVDrain false inside g rr fin) limit s)) = skipn n (queue s) ++ firstn n (queue s).
Proof.
  intros inside g rr fin s limit Hrr Hall n; cbn [qv_run]; fold n.
  rewrite (pop_loop_present inside g (records s) n (queue s) [] [] Hall); cbn [app].
  destruct rr; [contradiction| |]; destruct s; reflexivity.
Qed.

Lemma drain_partial : forall all inside g rr fin s limit, rr <> RNone ->
  forallb (fun i => memb i (records s)) (queue s) = true ->
  (Z.of_nat (length (queue s)) <= limit)%Z ->
  fst (qv_run (QVDrain all inside g rr fin) limit s) = s.
Proof.
  intros all inside g rr fin s limit Hrr Hall Hlim; cbn [qv_run].
  assert (En : (if all then length (queue s) else Z.to_nat (Z.min limit (Z.of_nat (length (queue s)))))
               = length (queue s)).
  { destruct all; [reflexivity|]. rewrite Z.min_r by lia. apply Nat2Z.id. }
  rewrite En, (pop_loop_present inside g (records s) (length (queue s)) (queue s) [] [] Hall).
  rewrite skipn_all, firstn_all; cbn [app fst].
  destruct rr; [contradiction| |]; cbn; apply set_queue_same.
Qed.

Lemma drain_limit_reorders_refuted : forall inside g rr fin,
  exists s limit, forallb (fun i => memb i (records s)) (queue s) = true /\
    queue (fst (qv_run (QVDrain false inside g rr fin) limit s)) <> queue s.
Proof.
  intros inside g rr fin; exists witness_long, 2%Z; split; [reflexivity|].
  destruct inside, g, rr, fin; vm_compute; intro E; discriminate E.
Qed.

(* drop: lookup inside the pop loop, not guarded, re-route not in a finally *)
Lemma unguarded_lookup_drops_refuted : forall all rr,
  exists s limit i, In i (queue s) /\ ~ In i (queue (fst (qv_run (QVDrain all true false rr false) limit s))).
Proof.
  intros all rr; exists witness_purged, 5%Z, 1; split; [left; reflexivity|].
  destruct all, rr; vm_compute; intro H;
    repeat (destruct H as [H | H]; [discriminate H|]); exact H.
Qed.

Lemma drain_permutes_when_present : forall inside g rr fin s limit, rr <> RNone ->
  forallb (fun i => memb i (records s)) (queue s) = true ->
  Permutation (queue (fst (qv_run (QVDrain false inside g rr fin) limit s))) (queue s).
Proof.
  intros inside g rr fin s limit Hrr Hall.
  rewrite (drain_limit_rotates inside g rr fin s limit Hrr Hall).
  set (n := Z.to_nat _).
  rewrite <- (firstn_skipn n (queue s)) at 3. apply Permutation_app_comm.
Qed.

(* ------------------------------------------------------------------ verdict on the generated shape *)
Definition queue_view_restores_stmt : Prop :=
  forall s limit, fst (qv_run gen_qv limit s) = s.

Lemma gen_queue_view_decided :
  if qv_restoring gen_qv then queue_view_restores_stmt else ~ queue_view_restores_stmt.
Proof.
  destruct (qv_restoring gen_qv) eqn:E.
  - exact (restoring_sound gen_qv E).
  - intro H; apply (restoring_iff gen_qv) in H; rewrite H in E; discriminate E.
Qed.

(* the whole of C20 on the model: every GET route of the generated table leaves every state
   as it was *)
Definition all_get_routes_observe_only : Prop :=
  (forall r, In r gen_routes -> r_qv r = false ->
     forall p, uses (fun a => In a (r_reach r)) p -> forall s, fst (run p s) = s)
  /\ queue_view_restores_stmt.

Lemma gen_c20_decided :
  if qv_restoring gen_qv then all_get_routes_observe_only else ~ all_get_routes_observe_only.
Proof.
  pose proof gen_queue_view_decided as D.
  destruct (qv_restoring gen_qv).
  - split; [exact gen_get_routes_read_only | exact D].
  - intros [_ H]; exact (D H).
Qed.

(* ------------------------------------------------------------------ implementations of the read methods *)
Lemma gen_read_impl_ok : impls_ok gen_read_impl = true.
Proof. vm_compute. reflexivity. Qed.

Lemma gen_impl_coverage : impl_coverage gen_routes gen_read_impl = true.
Proof. vm_compute. reflexivity. Qed.

Lemma impls_ok_effects : forall l i e, impls_ok l = true -> In i l -> read_only (i_api i) = true ->
  In e (i_effects i) -> effect_observes e = true.
Proof.
  intros l i e H Hi Hr He; unfold impls_ok in H; rewrite forallb_forall in H; specialize (H i Hi).
  unfold impl_ok in H; rewrite Hr in H; cbn [negb orb] in H.
  rewrite forallb_forall in H; exact (H e He).
Qed.

Lemma effect_observes_inv : forall e, effect_observes e = true -> exists a, e = ECall a /\ read_only a = true.
Proof. intros [a| |] H; cbn in H; try discriminate; exists a; split; [reflexivity | exact H]. Qed.

(* what a GET route (other than the queue view) can reach is implemented, in both backends, by code whose only
   effects are calls of read-only methods: no store / del / in-place operator on a stored container (not even
   through a local alias), no SQL write, no call of a mutating method *)
Lemma gen_get_routes_reach_observing_code : forall r a i e,
  In r gen_routes -> r_qv r = false -> In a (r_reach r) -> In i gen_read_impl -> i_api i = a ->
  In e (i_effects i) -> exists b, e = ECall b /\ read_only b = true.
Proof.
  intros r a i e Hr Hq Ha Hi Hia He; apply effect_observes_inv.
  apply (impls_ok_effects _ i e gen_read_impl_ok Hi); [|exact He].
  rewrite Hia; exact (forallb_In_read _ _ (routes_ok_plain _ _ gen_routes_ok Hr Hq) Ha).
Qed.

(* Proofs/FinalProofs.v — lemmas behind Props/C05.v *)
From Coq Require Import List Bool Arith Lia.
Import ListNotations.
From PV Require Import Model.Status Model.Lifecycle Model.Final Proofs.StatusProofs.

Definition stat (w : fworld) (i : inv) : option status := option_map st (lookup i (recs (fsys w))).

Definition stored (w : fworld) (i : inv) (o : outcome) : Prop :=
  match o with
  | Ok _ => alookup i (fres w) <> None
  | Err _ => alookup i (fexc w) <> None
  end.

Definition wstate_ok (w : fworld) (wk : worker) : Prop :=
  match wrest wk with
  | [SRunning; SBody; SStore; SPublish] => True
  | [SBody; SStore; SPublish] => True
  | [SStore; SPublish] => In (winv wk, wout wk) (fcompleted w)
  | [SPublish] => In (winv wk, wout wk) (fcompleted w) /\ stored w (winv wk) (wout wk)
  | [] => True
  | _ => False
  end.

Record FInv (w : fworld) : Prop := {
  inv_res : forall i v, alookup i (fres w) = Some v -> In (i, Ok v) (fcompleted w);
  inv_exc : forall i e, alookup i (fexc w) = Some e -> In (i, Err e) (fcompleted w);
  inv_succ : forall i, stat w i = Some SUCCESS -> alookup i (fres w) <> None;
  inv_fail : forall i, stat w i = Some FAILED -> alookup i (fexc w) <> None;
  inv_workers : Forall (wstate_ok w) (fworkers w);
  inv_obs : Forall (obs_ok (fcompleted w)) (fobs w) }.

(* ---- the lifecycle step, as seen from here ---- *)
Lemma step_set_spec : forall s i to rid s' out,
  step doc_transition s (OSet i to rid) = (s', out) ->
  (out = OutOk /\ (exists r', lookup i (recs s') = Some r' /\ st r' = to) /\
   (forall j, j <> i -> lookup j (recs s') = lookup j (recs s)))
  \/ (out <> OutOk /\ s' = s).
Proof.
  intros s i to rid s' out H. unfold step in H.
  destruct (lookup i (recs s)) as [r|] eqn:L.
  - destruct (doc_transition (Some r) to rid) as [s1 o1|e] eqn:ET.
    + inversion H; subst. left. split; [reflexivity|]. split.
      * cbn. rewrite lookup_upsert_same. eexists; split; [reflexivity|]. cbn.
        apply (doc_success_follows_edge _ _ _ _ _ ET).
      * intros j Hj. cbn. now apply lookup_upsert_other.
    + inversion H; subst. right. split; [discriminate|reflexivity].
  - inversion H; subst. right. split; [discriminate|reflexivity].
Qed.

Lemma try_set_spec : forall s i to rid s' ok,
  try_set s i to rid = (s', ok) ->
  (ok = true /\ (exists r', lookup i (recs s') = Some r' /\ st r' = to) /\
   (forall j, j <> i -> lookup j (recs s') = lookup j (recs s)))
  \/ (ok = false /\ s' = s).
Proof.
  intros s i to rid s' ok H. unfold try_set in H.
  destruct (step doc_transition s (OSet i to rid)) as [s1 out] eqn:E.
  destruct (step_set_spec _ _ _ _ _ _ E) as [(-> & Hr & Ho)|(Hne & ->)].
  - inversion H; subst. left. auto.
  - right. destruct out; inversion H; subst; auto. contradiction.
Qed.

(* ---- list plumbing ---- *)
Lemma Forall_set_nth : forall (P : worker -> Prop) l k x,
  Forall P l -> P x -> Forall P (set_nth k x l).
Proof.
  intros P l; induction l as [|a l IH]; intros k x Hl Hx; [destruct k; constructor|].
  inversion Hl; subst. destruct k; cbn; constructor; auto.
Qed.

Lemma nth_error_Forall : forall (P : worker -> Prop) l k x, Forall P l -> nth_error l k = Some x -> P x.
Proof.
  intros P l; induction l as [|a l IH]; intros k x Hl Hn; destruct k; cbn in Hn; try discriminate;
    inversion Hl; subst; [inversion Hn; subst; assumption|eapply IH; eassumption].
Qed.

Lemma alookup_cons_ne : forall i j v l, alookup i l <> None -> alookup i ((j, v) :: l) <> None.
Proof. intros i j v l H. cbn. destruct (Nat.eqb i j); [discriminate|assumption]. Qed.

(* worker states only depend monotonically on the ghost / stores *)
Definition grows (w w' : fworld) : Prop :=
  (forall x, In x (fcompleted w) -> In x (fcompleted w')) /\
  (forall i, alookup i (fres w) <> None -> alookup i (fres w') <> None) /\
  (forall i, alookup i (fexc w) <> None -> alookup i (fexc w') <> None).

Lemma wstate_ok_grows : forall w w' wk, grows w w' -> wstate_ok w wk -> wstate_ok w' wk.
Proof.
  intros w w' wk (Hc & Hr & He) H. unfold wstate_ok in *.
  destruct (wrest wk) as [|[] [|[] [|[] [|[] [|? ?]]]]]; try contradiction; try exact I; auto.
  destruct H as [H1 H2]. split; [auto|]. unfold stored in *. destruct (wout wk); auto.
Qed.

Lemma obs_ok_grows : forall c c' o, (forall x, In x c -> In x c') -> obs_ok c o -> obs_ok c' o.
Proof.
  intros c c' o Hc H. unfold obs_ok in *. destruct (ostatus o) as [s|]; [|exact I].
  destruct s; try exact I; destruct H as [x [H1 H2]]; exists x; auto.
Qed.

Lemma grows_refl : forall w, grows w w.
Proof. intros w; repeat split; auto. Qed.

Definition sstat (s : sys) (i : inv) : option status := option_map st (lookup i (recs s)).

Lemma try_set_status : forall s i0 to rid s' ok, try_set s i0 to rid = (s', ok) ->
  forall i x, sstat s' i = Some x -> sstat s i = Some x \/ (ok = true /\ i = i0 /\ x = to).
Proof.
  intros s i0 to rid s' ok H i x Hx.
  destruct (try_set_spec _ _ _ _ _ _ H) as [(-> & [r' [Hl Hs]] & Ho)|(-> & ->)]; [|now left].
  destruct (Nat.eq_dec i i0) as [->|ne].
  - right. unfold sstat in Hx. rewrite Hl in Hx. cbn in Hx. inversion Hx; subst. auto.
  - left. unfold sstat in *. now rewrite <- (Ho i ne).
Qed.

Lemma step_set_status : forall s i0 to rid i x,
  sstat (fst (step doc_transition s (OSet i0 to rid))) i = Some x ->
  sstat s i = Some x \/ (i = i0 /\ x = to).
Proof.
  intros s i0 to rid i x Hx.
  destruct (step doc_transition s (OSet i0 to rid)) as [s' out] eqn:E. cbn in Hx.
  destruct (step_set_spec _ _ _ _ _ _ E) as [(-> & [r' [Hl Hs]] & Ho)|(_ & ->)]; [|now left].
  destruct (Nat.eq_dec i i0) as [->|ne].
  - right. unfold sstat in Hx. rewrite Hl in Hx. cbn in Hx. inversion Hx; subst. auto.
  - left. unfold sstat in *. now rewrite <- (Ho i ne).
Qed.

(* ---- one worker step ---- *)
Lemma adv_inv : forall w k, FInv w -> FInv (adv w k).
Proof.
  intros w k H. unfold adv.
  destruct (nth_error (fworkers w) k) as [wk|] eqn:En; [|exact H].
  pose proof (nth_error_Forall _ _ _ _ (inv_workers w H) En) as Hwk.
  unfold wstate_ok in Hwk.
  destruct (wrest wk) as [|a rest] eqn:Er; [exact H|].
  destruct a.
  - (* SRunning *)
    destruct rest as [|b [|c [|d [|e l]]]]; try contradiction; destruct b; try contradiction;
      destruct c; try contradiction; destruct d; try contradiction.
    destruct (try_set (fsys w) (winv wk) RUNNING (Some (wrun wk))) as [s' ok] eqn:Et.
    assert (forall i x, sstat s' i = Some x -> x <> RUNNING -> sstat (fsys w) i = Some x) as Hst.
    { intros i x Hx Hne. destruct (try_set_status _ _ _ _ _ _ Et i x Hx) as [|(_ & _ & ->)]; [assumption|contradiction]. }
    constructor; cbn.
    + apply (inv_res w H).
    + apply (inv_exc w H).
    + intros i Hi. apply (inv_succ w H). apply Hst; [exact Hi|discriminate].
    + intros i Hi. apply (inv_fail w H). apply Hst; [exact Hi|discriminate].
    + apply Forall_set_nth.
      * eapply Forall_impl; [|exact (inv_workers w H)]. intros x Hx.
        eapply wstate_ok_grows; [|exact Hx]. repeat split; auto.
      * unfold wstate_ok. cbn. destruct ok; exact I.
    + apply (inv_obs w H).
  - (* SBody *)
    destruct rest as [|b [|c [|d l]]]; try contradiction; destruct b; try contradiction;
      destruct c; try contradiction.
    constructor; cbn.
    + intros i v Hv. right. now apply (inv_res w H).
    + intros i e He. right. now apply (inv_exc w H).
    + apply (inv_succ w H).
    + apply (inv_fail w H).
    + apply Forall_set_nth.
      * eapply Forall_impl; [|exact (inv_workers w H)]. intros x Hx.
        eapply wstate_ok_grows; [|exact Hx]. repeat split; cbn; auto.
      * unfold wstate_ok. cbn. now left.
    + eapply Forall_impl; [|exact (inv_obs w H)]. intros o Ho.
      eapply obs_ok_grows; [|exact Ho]. intros x Hx; now right.
  - (* SStore *)
    destruct rest as [|b [|c l]]; try contradiction; destruct b; try contradiction.
    constructor; cbn.
    + intros i v. destruct (wout wk) as [v0|e0] eqn:Eo; [|apply (inv_res w H)].
      cbn. destruct (Nat.eqb i (winv wk)) eqn:Ei; [|apply (inv_res w H)].
      apply Nat.eqb_eq in Ei; subst i. intros X; inversion X; subst. exact Hwk.
    + intros i e. destruct (wout wk) as [v0|e0] eqn:Eo; [apply (inv_exc w H)|].
      cbn. destruct (Nat.eqb i (winv wk)) eqn:Ei; [|apply (inv_exc w H)].
      apply Nat.eqb_eq in Ei; subst i. intros X; inversion X; subst. exact Hwk.
    + intros i Hi. pose proof (inv_succ w H i Hi) as Hs.
      destruct (wout wk); [now apply alookup_cons_ne|assumption].
    + intros i Hi. pose proof (inv_fail w H i Hi) as Hs.
      destruct (wout wk); [assumption|now apply alookup_cons_ne].
    + apply Forall_set_nth.
      * eapply Forall_impl; [|exact (inv_workers w H)]. intros x Hx.
        eapply wstate_ok_grows; [|exact Hx]. repeat split; cbn; auto;
          intros i Hi; destruct (wout wk); auto using alookup_cons_ne.
      * unfold wstate_ok. cbn. split; [exact Hwk|].
        unfold stored. cbn. destruct (wout wk); cbn; rewrite Nat.eqb_refl; discriminate.
    + apply (inv_obs w H).
  - (* SPublish *)
    destruct rest as [|b l]; [|destruct b; contradiction].
    destruct Hwk as [Hdone Hstored].
    destruct (try_set (fsys w) (winv wk) (final_of (wout wk)) (Some (wrun wk))) as [s' ok] eqn:Et.
    constructor; cbn.
    + apply (inv_res w H).
    + apply (inv_exc w H).
    + intros i Hi. destruct (try_set_status _ _ _ _ _ _ Et i SUCCESS Hi) as [Hold|(_ & -> & Hf)].
      * now apply (inv_succ w H).
      * unfold stored in Hstored. destruct (wout wk); [exact Hstored|discriminate].
    + intros i Hi. destruct (try_set_status _ _ _ _ _ _ Et i FAILED Hi) as [Hold|(_ & -> & Hf)].
      * now apply (inv_fail w H).
      * unfold stored in Hstored. destruct (wout wk); [discriminate|exact Hstored].
    + apply Forall_set_nth.
      * eapply Forall_impl; [|exact (inv_workers w H)]. intros x Hx.
        eapply wstate_ok_grows; [|exact Hx]. repeat split; auto.
      * unfold wstate_ok. cbn. destruct ok; exact I.
    + apply (inv_obs w H).
Qed.

Lemma fstep_inv : forall w s, FInv w -> FInv (fstep_run true true w s).
Proof.
  intros w s H. destruct s as [k|i to rid|i r o|i]; cbn.
  - now apply adv_inv.
  - destruct (is_result_status to) eqn:Er; [exact H|].
    constructor; cbn.
    + apply (inv_res w H).
    + apply (inv_exc w H).
    + intros j Hj. apply (inv_succ w H).
      destruct (step_set_status _ _ _ _ _ _ Hj) as [|[_ <-]]; [assumption|discriminate].
    + intros j Hj. apply (inv_fail w H).
      destruct (step_set_status _ _ _ _ _ _ Hj) as [|[_ <-]]; [assumption|discriminate].
    + eapply Forall_impl; [|exact (inv_workers w H)]. intros x Hx.
      eapply wstate_ok_grows; [|exact Hx]. repeat split; auto.
    + apply (inv_obs w H).
  - constructor; cbn;
      [apply (inv_res w H)|apply (inv_exc w H)|apply (inv_succ w H)|apply (inv_fail w H)| |apply (inv_obs w H)].
    apply Forall_app; split.
    + eapply Forall_impl; [|exact (inv_workers w H)]. intros x Hx.
      eapply wstate_ok_grows; [|exact Hx]. repeat split; auto.
    + constructor; [|constructor]. unfold wstate_ok, spawn, full_prog, finish_prog, store_first_for. cbn.
      destruct o; exact I.
  - constructor; cbn;
      [apply (inv_res w H)|apply (inv_exc w H)|apply (inv_succ w H)|apply (inv_fail w H)| | ].
    + eapply Forall_impl; [|exact (inv_workers w H)]. intros x Hx.
      eapply wstate_ok_grows; [|exact Hx]. repeat split; auto.
    + constructor; [|apply (inv_obs w H)].
      unfold obs_ok. cbn.
      destruct (lookup i (recs (fsys w))) as [r|] eqn:L; cbn; [|exact I].
      destruct (st r) eqn:Es; try exact I.
      * assert (stat w i = Some SUCCESS) as Hs by (unfold stat; rewrite L; cbn; now rewrite Es).
        pose proof (inv_succ w H i Hs) as Hne.
        destruct (alookup i (fres w)) as [v|] eqn:Ea; [|contradiction].
        exists v. split; [reflexivity|]. now apply (inv_res w H).
      * assert (stat w i = Some FAILED) as Hs by (unfold stat; rewrite L; cbn; now rewrite Es).
        pose proof (inv_fail w H i Hs) as Hne.
        destruct (alookup i (fexc w)) as [e|] eqn:Ea; [|contradiction].
        exists e. split; [reflexivity|]. now apply (inv_exc w H).
Qed.

Lemma frun_inv : forall l w, FInv w -> FInv (frun true true w l).
Proof.
  induction l as [|s l IH]; intros w H; cbn; [exact H|]. apply IH. now apply fstep_inv.
Qed.

(* start: no invocation is SUCCESS/FAILED yet (they only become so through workers) *)
Definition fresh_start (ops0 : list op) : Prop :=
  forall i, sstat (exec doc_transition sys0 ops0) i <> Some SUCCESS /\
            sstat (exec doc_transition sys0 ops0) i <> Some FAILED.

Lemma FInv_init : forall ops0, fresh_start ops0 -> FInv (fworld_of ops0).
Proof.
  intros ops0 Hf. constructor; cbn; try (intros; discriminate); try constructor.
  - intros i Hi. exfalso. apply (proj1 (Hf i)). exact Hi.
  - intros i Hi. exfalso. apply (proj2 (Hf i)). exact Hi.
Qed.

Lemma observations_ok : forall ops0 l, fresh_start ops0 ->
  let w := frun true true (fworld_of ops0) l in Forall (obs_ok (fcompleted w)) (fobs w).
Proof. intros ops0 l Hf. apply (inv_obs _ (frun_inv l _ (FInv_init ops0 Hf))). Qed.

(* get_final_result on a non-final status never yields a value *)
Lemma nonfinal_no_value : forall o s, ostatus o = Some s -> doc_final s = false ->
  get_final_result true o = FNotFinal.
Proof. intros o s Ho Hf. unfold get_final_result. rewrite Ho, Hf. reflexivity. Qed.

Lemma final_result_matches : forall c o, obs_ok c o ->
  (ostatus o = Some SUCCESS -> exists v, get_final_result true o = FValue v /\ In (oinv o, Ok v) c) /\
  (ostatus o = Some FAILED -> exists e, get_final_result true o = FRaise e /\ In (oinv o, Err e) c).
Proof.
  intros c o H. unfold obs_ok in H. split; intros Hs; rewrite Hs in H;
    destruct H as [x [Hx Hin]]; exists x; unfold get_final_result; rewrite Hs; cbn; rewrite Hx; auto.
Qed.

(* publish-before-store is refuted: a reader sees SUCCESS without a result *)
Lemma publish_first_refuted :
  exists l, let w := frun false false (fworld_of [ORegister 0 None; OSet 0 PENDING (Some 1)]) l in
            exists o, In o (fobs w) /\ ostatus o = Some SUCCESS /\ ores o = None.
Proof.
  exists [FSpawn 0 1 (Ok 42); FAdv 0; FAdv 0; FAdv 0; FRead 0].
  eexists. split; [left; reflexivity|]. vm_compute. split; reflexivity.
Qed.

(* ---- independent outcome stores: the machine is the one above ---- *)
Lemma frun2_independent : forall rf ef l w, frun2 rf ef true w l = frun rf ef w l.
Proof. intros rf ef l. induction l as [|s l IH]; intros w; [reflexivity|]. cbn [frun2 frun fold_left]. apply IH. Qed.

Lemma observations_ok2 : forall ops0 l, fresh_start ops0 ->
  let w := frun2 true true true (fworld_of ops0) l in Forall (obs_ok (fcompleted w)) (fobs w).
Proof. intros ops0 l Hf. cbv zeta. rewrite frun2_independent. now apply observations_ok. Qed.

(* a store that deletes the other kind of outcome lets a zombie wipe the outcome of an invocation that is already final *)
Lemma dependent_stores_refuted :
  exists l, let w := frun2 true true false (fworld_of [ORegister 0 None; OSet 0 PENDING (Some 1)]) l in
            exists o, In o (fobs w) /\ ostatus o = Some FAILED /\ oexc o = None.
Proof.
  (* worker 0 (runner 1) starts and is slow; recovery re-queues; runner 2 claims, runs, fails and publishes FAILED;
     the zombie then stores its result, which deletes the exception; its SUCCESS is refused *)
  exists [FSpawn 0 1 (Ok 42); FAdv 0; FAdv 0;
          FExt 0 RUNNING_RECOVERY (Some 9); FExt 0 REROUTED (Some 9); FExt 0 PENDING (Some 2);
          FSpawn 0 2 (Err 7); FAdv 1; FAdv 1; FAdv 1; FAdv 1; FAdv 0; FAdv 0; FRead 0].
  vm_compute. eexists. split; [left; reflexivity|]. split; reflexivity.
Qed.

(* Proofs/CDSProofs.v — client data store: content addressing, round trip, LRU aliasing. *)
From Coq Require Import List NArith Bool Lia.
Import ListNotations.
From PV Require Import Model.ArgsId Model.CDS Proofs.ArgsIdProofs.
Open Scope N_scope.

Lemma str_eqb_eq : forall a b, str_eqb a b = true <-> a = b.
Proof.
  intros a b. unfold str_eqb. split.
  - destruct (str_cmp a b) eqn:E; try discriminate. intros _. apply str_cmp_eq. exact E.
  - intros ->. rewrite str_cmp_refl. reflexivity.
Qed.

Lemma str_eqb_refl : forall a, str_eqb a a = true.
Proof. intros a. apply str_eqb_eq. reflexivity. Qed.

Lemma str_eqb_neq : forall a b, str_eqb a b = false <-> a <> b.
Proof.
  intros a b. split.
  - intros E Heq. apply str_eqb_eq in Heq. congruence.
  - intros Hne. destruct (str_eqb a b) eqn:E; [|reflexivity]. apply str_eqb_eq in E. contradiction.
Qed.

Lemma starts_with_app : forall p x, starts_with p (p ++ x) = true.
Proof. induction p as [|c p IH]; intros x; cbn; [reflexivity|]. rewrite N.eqb_refl. apply IH. Qed.

Section Alist.
  Context {A : Type}.

  Lemma lookupS_upsert_same : forall k (v : A) l, lookupS k (upsertS k v l) = Some v.
  Proof.
    intros k v l. induction l as [|[k' v'] l IH]; cbn.
    - rewrite str_eqb_refl. reflexivity.
    - destruct (str_eqb k k') eqn:E; cbn.
      + rewrite str_eqb_refl. reflexivity.
      + rewrite E. exact IH.
  Qed.

  Lemma lookupS_upsert_other : forall k k' (v : A) l, k' <> k -> lookupS k' (upsertS k v l) = lookupS k' l.
  Proof.
    intros k k' v l Hne. induction l as [|[k2 v2] l IH]; cbn.
    - apply str_eqb_neq in Hne. rewrite Hne. reflexivity.
    - destruct (str_eqb k k2) eqn:E; cbn.
      + apply str_eqb_eq in E. subst k2. apply str_eqb_neq in Hne. rewrite Hne. reflexivity.
      + destruct (str_eqb k' k2); [reflexivity|exact IH].
  Qed.

  Lemma lookupS_In : forall k (x : A) l, lookupS k l = Some x -> In (k, x) l.
  Proof.
    intros k x l. induction l as [|[k' v'] l IH]; cbn; [discriminate|].
    destruct (str_eqb k k') eqn:E.
    - apply str_eqb_eq in E. subst k'. intros Hx. inversion Hx. left. reflexivity.
    - intros Hx. right. apply IH. exact Hx.
  Qed.

  Lemma In_upsertS : forall k (x : A) k0 x0 l, In (k, x) (upsertS k0 x0 l) -> (k, x) = (k0, x0) \/ In (k, x) l.
  Proof.
    intros k x k0 x0 l. induction l as [|[k' v'] l IH]; cbn.
    - intros [Heq|[]]. left. symmetry. exact Heq.
    - destruct (str_eqb k0 k'); cbn.
      + intros [Heq|Hin]; [left; symmetry; exact Heq|right; right; exact Hin].
      + intros [Heq|Hin]; [right; left; exact Heq|]. destruct (IH Hin); [left|right; right]; assumption.
  Qed.

  Lemma In_removeS : forall k (x : A) k0 l, In (k, x) (removeS k0 l) -> In (k, x) l.
  Proof.
    intros k x k0 l. induction l as [|[k' v'] l IH]; cbn; [tauto|].
    destruct (str_eqb k0 k'); cbn.
    - intros Hin. right. apply IH. exact Hin.
    - intros [Heq|Hin]; [left; exact Heq|right; apply IH; exact Hin].
  Qed.

  Lemma In_tl : forall (e : str * A) l, In e (tl l) -> In e l.
  Proof. intros e [|y l]; cbn; tauto. Qed.

  Lemma In_lru_put : forall cap k (x : A) k0 x0 l, In (k, x) (lru_put cap k0 x0 l) -> (k, x) = (k0, x0) \/ In (k, x) l.
  Proof.
    intros cap k x k0 x0 l. unfold lru_put.
    set (l1 := if cap <=? N.of_nat (length l) then tl l else l).
    assert (Hsub : forall e, In e l1 -> In e l).
    { intros e. subst l1. destruct (cap <=? N.of_nat (length l)); [apply In_tl|tauto]. }
    destruct (lookupS k0 l1).
    - intros Hin. apply In_upsertS in Hin. destruct Hin; [left|right; apply Hsub]; assumption.
    - intros Hin. apply in_app_or in Hin. destruct Hin as [Hin|[Heq|[]]]; [right; apply Hsub; exact Hin|left; symmetry; exact Heq].
  Qed.

  Lemma In_lru_touch : forall k (x : A) k0 x0 l, In (k, x) (lru_touch k0 x0 l) -> (k, x) = (k0, x0) \/ In (k, x) l.
  Proof.
    intros k x k0 x0 l. unfold lru_touch. intros Hin. apply in_app_or in Hin.
    destruct Hin as [Hin|[Heq|[]]]; [right; eapply In_removeS; exact Hin|left; symmetry; exact Heq].
  Qed.

  Lemma lookupA_set_heap : forall a' a (v : A) h,
    lookupA a' (set_heap A a v h) =
    if a' =? a then match lookupA a h with Some _ => Some v | None => None end else lookupA a' h.
  Proof.
    intros a' a v h. induction h as [|[a2 v2] h IH]; cbn.
    - destruct (a' =? a); reflexivity.
    - destruct (a =? a2) eqn:E; cbn.
      + apply N.eqb_eq in E. subst a2. destruct (a' =? a) eqn:E2; reflexivity.
      + destruct (a' =? a2) eqn:E3.
        * destruct (a' =? a) eqn:E4; [|reflexivity]. apply N.eqb_eq in E3, E4. subst. rewrite N.eqb_refl in E. discriminate.
        * exact IH.
  Qed.
End Alist.

Section CDSProofs.
  Variable V : Type.
  Variable ser : V -> str.
  Variable deser : str -> V.
  Variable as_ref : V -> option str.
  Variable H : str -> str.
  Variable f : cds_facts.
  Variable c : cds_conf.

  (* oracle laws *)
  Variable T : str -> Prop.                 (* the serialized contents that occur *)
  Hypothesis H_no_collision : forall s1 s2, T s1 -> T s2 -> H s1 = H s2 -> s1 = s2.
  Hypothesis ser_deser : forall v, deser (ser v) = v.
  Hypothesis ser_not_ref : forall v, is_ref f (ser v) = false.

  Notation st := (cds_st V).
  Notation mk := (mkkey H f).
  Notation serialize := (serialize V ser as_ref H f c).
  Notation resolve := (resolve V deser f c).
  Notation step := (step V ser deser as_ref H f c).
  Notation run := (run V ser deser as_ref H f c).

  Lemma mk_inj : forall s1 s2, T s1 -> T s2 -> mk s1 = mk s2 -> s1 = s2.
  Proof.
    intros s1 s2 H1 H2 Heq. unfold mkkey in Heq.
    apply app_inv_head in Heq. apply app_inv_head in Heq. apply H_no_collision; assumption.
  Qed.

  Lemma is_ref_mk : forall s, is_ref f (mk s) = true.
  Proof. intros s. unfold is_ref, mkkey. apply starts_with_app. Qed.

  Notation resolve_cold := (resolve_cold V deser f).

  (* The backend rows and the LRU entries are content-addressed INDEPENDENTLY of each other: a purge of
     the backend by another instance may leave LRU entries without a row. *)
  Definition Inv (s : st) : Prop :=
    (forall k x, lookupS k (store s) = Some x -> k = mk x /\ T x) /\
    (forall k x, In (k, x) (lru s) -> exists t, k = mk t /\ T t /\
        match x with CText t' => t' = t | CObj a => lookupA a (heap s) = Some (deser t) end) /\
    (forall a v, lookupA a (heap s) = Some v -> a < next s) /\
    (lru_holds_object f = false -> forall k a, ~ In (k, CObj a) (lru s)).

  Lemma Inv_st0 : Inv (st0 V).
  Proof.
    unfold Inv. split; [|split; [|split]]; cbn.
    - intros k x Hl. discriminate.
    - intros k x [].
    - intros a v Hl. discriminate.
    - intros _ k a [].
  Qed.

  Lemma lookupA_alloc : forall (s : st) v a w, (forall a v, lookupA a (heap s) = Some v -> a < next s) ->
    lookupA a (heap s) = Some w -> lookupA a (heap (fst (alloc V s v))) = Some w.
  Proof.
    intros s v a w Hlt Hl. cbn. destruct (a =? next s) eqn:E; [|exact Hl].
    apply N.eqb_eq in E. apply Hlt in Hl. lia.
  Qed.

  Lemma Inv_alloc : forall s v, Inv s -> Inv (fst (alloc V s v)).
  Proof.
    intros s v (I1 & I3 & I4 & I5). unfold Inv. split; [|split; [|split]].
    - exact I1.
    - intros k x Hin. cbn in Hin. destruct (I3 k x Hin) as (t & Hk & Tt & Hx). exists t. split; [exact Hk|]. split; [exact Tt|].
      destruct x as [a|t']; [|exact Hx]. apply lookupA_alloc; assumption.
    - cbn. intros a w. destruct (a =? next s) eqn:E.
      + apply N.eqb_eq in E. intros _. lia.
      + intros Hl. apply I4 in Hl. lia.
    - exact I5.
  Qed.

  (* replacing backend rows, LRU and remembered keys by content-addressed ones (heap untouched) *)
  Lemma Inv_update : forall (s : st) store' lru' known', Inv s ->
    (forall k x, lookupS k store' = Some x -> (k = mk x /\ T x) \/ lookupS k (store s) = Some x) ->
    (forall k x, In (k, x) lru' ->
        (exists t, k = mk t /\ T t /\ x = CText t) \/
        (exists t a, k = mk t /\ T t /\ x = CObj a /\ lru_holds_object f = true /\ lookupA a (heap s) = Some (deser t)) \/
        In (k, x) (lru s)) ->
    Inv {| store := store'; lru := lru'; heap := heap s; next := next s; known := known' |}.
  Proof.
    intros s store' lru' known' (I1 & I3 & I4 & I5) Hst Hsub. unfold Inv. cbn [store lru heap next]. split; [|split; [|split]].
    - intros k x Hl. destruct (Hst k x Hl) as [Hnew|Hold]; [exact Hnew|apply I1; exact Hold].
    - intros k x Hin. destruct (Hsub k x Hin) as [(t & Hk & Tt & ->)|[(t & a & Hk & Tt & -> & _ & Ha)|Hold]].
      + exists t. auto.
      + exists t. auto.
      + apply I3. exact Hold.
    - exact I4.
    - intros Hf k a Hin. destruct (Hsub k (CObj a) Hin) as [(t & _ & _ & Hx)|[(t & a' & _ & _ & _ & Hf' & _)|Hold]].
      + discriminate.
      + congruence.
      + exact (I5 Hf k a Hold).
  Qed.

  Lemma entry_cases : forall a t, (entry f a t = CText t /\ lru_holds_object f = false) \/ (entry f a t = CObj a /\ lru_holds_object f = true).
  Proof. intros a t. unfold entry. destruct (lru_holds_object f); auto. Qed.

  Lemma serialize_Inv : forall s v dis s' d, Inv s -> T (ser v) -> serialize s v dis = (s', d) -> Inv s'.
  Proof.
    intros s v dis s' d HI Ht Hs. unfold CDS.serialize in Hs.
    pose proof (Inv_alloc s v HI) as HI1.
    destruct (alloc V s v) as [s1 a] eqn:Ea. cbn [fst] in HI1.
    destruct (disabled c || dis); [inversion Hs; subst; exact HI1|].
    destruct (if ref_passthrough f then as_ref v else None); [inversion Hs; subst; exact HI1|].
    destruct (route f c (slen (ser v))); [|inversion Hs; subst; exact HI1].
    inversion Hs; subst s' d. apply (Inv_update s1); [exact HI1| |].
    - intros k x Hl. destruct (store_skip_known f && memS (mk (ser v)) (known s1)); [right; exact Hl|].
      destruct (list_eq_dec N.eq_dec k (mk (ser v))) as [->|Hne].
      + rewrite lookupS_upsert_same in Hl. inversion Hl. subst. left. auto.
      + rewrite lookupS_upsert_other in Hl by exact Hne. right. exact Hl.
    - intros k x Hin. apply In_lru_put in Hin. destruct Hin as [Heq|Hin]; [|right; right; exact Hin].
      destruct (entry_cases a (ser v)) as [[He Hf]|[He Hf]]; rewrite He in Heq; inversion Heq; subst.
      + left. exists (ser v). auto.
      + right. left. exists (ser v), a. repeat split; auto.
        unfold alloc in Ea. inversion Ea; subst. cbn. rewrite N.eqb_refl. rewrite ser_deser. reflexivity.
  Qed.

  Lemma resolve_Inv : forall s d s' r, Inv s -> resolve s d = (s', r) -> Inv s'.
  Proof.
    intros s d s' r HI Hr. unfold CDS.resolve in Hr.
    destruct (is_ref f d).
    - destruct (lookupS d (lru s)) as [[a|t]|] eqn:El.
      + inversion Hr; subst. apply (Inv_update s); [exact HI|intros k x Hl; right; exact Hl|].
        intros k x Hin. apply In_lru_touch in Hin. destruct Hin as [Heq|Hin]; [|right; right; exact Hin].
        inversion Heq; subst. right. right. apply lookupS_In. exact El.
      + pose proof (Inv_alloc s (deser t) HI) as HI1.
        destruct (alloc V s (deser t)) as [s1 a] eqn:Ea. cbn [fst] in HI1. inversion Hr; subst.
        apply (Inv_update s1); [exact HI1|intros k x Hl; right; exact Hl|].
        intros k x Hin. apply In_lru_touch in Hin. destruct Hin as [Heq|Hin]; [|right; right; exact Hin].
        inversion Heq; subst. right. right. unfold alloc in Ea. inversion Ea; subst. cbn. apply lookupS_In. exact El.
      + destruct (lookupS d (store s)) as [t|] eqn:Es; [|inversion Hr; subst; exact HI].
        pose proof (Inv_alloc s (deser t) HI) as HI1.
        destruct HI as (I1 & _). destruct (I1 _ _ Es) as [Hd Tt].
        destruct (alloc V s (deser t)) as [s1 a] eqn:Ea. cbn [fst] in HI1. inversion Hr; subst s' r.
        apply (Inv_update s1); [exact HI1|intros k x Hl; right; exact Hl|].
        intros k x Hin. apply In_lru_put in Hin. destruct Hin as [Heq|Hin]; [|right; right; exact Hin].
        unfold alloc in Ea. inversion Ea; subst s1 a. cbn [store heap].
        destruct (entry_cases (next s) t) as [[He Hf]|[He Hf]]; rewrite He in Heq; inversion Heq; subst k x.
        * left. exists t. auto.
        * right. left. exists t, (next s). repeat split; auto. cbn. rewrite N.eqb_refl. reflexivity.
    - pose proof (Inv_alloc s (deser d) HI) as HI1.
      destruct (alloc V s (deser d)) as [s1 a]. inversion Hr; subst. exact HI1.
  Qed.

  Lemma resolve_cold_Inv : forall s d s' r, Inv s -> resolve_cold s d = (s', r) -> Inv s'.
  Proof.
    intros s d s' r HI Hr. unfold CDS.resolve_cold in Hr.
    destruct (is_ref f d).
    - destruct (lookupS d (store s)) as [t|]; [|inversion Hr; subst; exact HI].
      pose proof (Inv_alloc s (deser t) HI) as HI1.
      destruct (alloc V s (deser t)) as [s1 a]. inversion Hr; subst. exact HI1.
    - pose proof (Inv_alloc s (deser d) HI) as HI1.
      destruct (alloc V s (deser d)) as [s1 a]. inversion Hr; subst. exact HI1.
  Qed.

  Definition quiet_op (o : op V) : Prop := lru_holds_object f = false \/ is_mut V o = false.
  Definition text_ok (o : op V) : Prop := forall t, In t (op_text V ser o) -> T t.

  (* every operation - the two purges included - keeps the invariant *)
  Lemma step_Inv : forall s o, Inv s -> quiet_op o -> text_ok o -> Inv (fst (step s o)).
  Proof.
    intros s o HI Hq Ht. destruct o as [v dis|d|a v|d| |]; cbn [CDS.step].
    - destruct (serialize s v dis) as [s' d] eqn:E. cbn. eapply serialize_Inv; eauto. apply Ht. cbn. auto.
    - destruct (resolve s d) as [s' [a|]] eqn:E; cbn; eapply resolve_Inv; eauto.
    - cbn. destruct Hq as [Hf|Hm]; [|discriminate].
      destruct HI as (I1 & I3 & I4 & I5). unfold Inv. cbn [store lru heap next]. split; [|split; [|split]].
      + exact I1.
      + intros k x Hin. destruct (I3 k x Hin) as (t & Hk & Tt & Hx). exists t. split; [exact Hk|]. split; [exact Tt|].
        destruct x as [a0|t']; [|exact Hx]. exfalso. exact (I5 Hf k a0 Hin).
      + intros a' w. rewrite lookupA_set_heap. destruct (a' =? a) eqn:E.
        * apply N.eqb_eq in E. subst a'. destruct (lookupA a (heap s)) eqn:El; [|discriminate]. intros _. eapply I4. exact El.
        * apply I4.
      + exact I5.
    - destruct (resolve_cold s d) as [s' [a|]] eqn:E; cbn; eapply resolve_cold_Inv; eauto.
    - cbn. unfold purge_own. apply (Inv_update s); [exact HI|intros k x Hl; discriminate|intros k x []].
    - cbn. unfold purge_ext. apply (Inv_update s); [exact HI|intros k x Hl; discriminate|intros k x Hin; right; right; exact Hin].
  Qed.

  (* a backend row only disappears through a purge (whether or not writes of remembered keys are skipped) *)
  Lemma step_store_mono : forall s o k t, is_purge V o = false -> lookupS k (store s) = Some t ->
    exists t', lookupS k (store (fst (step s o))) = Some t'.
  Proof.
    intros s o k t Hnp Hl. destruct o as [v dis|d|a v|d| |]; cbn [CDS.step]; try discriminate.
    - unfold CDS.serialize. cbn [alloc]. destruct (disabled c || dis); [cbn; eauto|].
      destruct (if ref_passthrough f then as_ref v else None); [cbn; eauto|].
      destruct (route f c (slen (ser v))); [|cbn; eauto]. cbn.
      destruct (store_skip_known f && memS (mk (ser v)) (known s)); [eauto|].
      destruct (list_eq_dec N.eq_dec k (mk (ser v))) as [->|Hne].
      + rewrite lookupS_upsert_same. eauto.
      + rewrite lookupS_upsert_other by exact Hne. eauto.
    - unfold CDS.resolve. destruct (is_ref f d).
      + destruct (lookupS d (lru s)) as [[a|t0]|]; cbn; eauto.
        destruct (lookupS d (store s)); cbn; eauto.
      + cbn. eauto.
    - cbn. eauto.
    - unfold CDS.resolve_cold. destruct (is_ref f d).
      + destruct (lookupS d (store s)); cbn; eauto.
      + cbn. eauto.
  Qed.

  Definition quiet (ops : list (op V)) : Prop := forall o, In o ops -> quiet_op o.
  Definition texts_in (ops : list (op V)) : Prop := forall o, In o ops -> text_ok o.
  Definition no_purge (ops : list (op V)) : Prop := forall o, In o ops -> is_purge V o = false.

  Lemma run_Inv_keep : forall ops s k t, Inv s -> quiet ops -> texts_in ops -> no_purge ops -> lookupS k (store s) = Some t ->
    Inv (run s ops) /\ lookupS k (store (run s ops)) = Some t.
  Proof.
    induction ops as [|o ops IH]; intros s k t HI Hq Ht Hnp Hl; cbn [CDS.run]; [auto|].
    assert (HI' : Inv (fst (step s o))) by (apply step_Inv; [exact HI|apply Hq; left; reflexivity|apply Ht; left; reflexivity]).
    destruct (step_store_mono s o k t (Hnp o (or_introl eq_refl)) Hl) as (t' & Hl').
    assert (t' = t).
    { destruct HI as (I1 & _). destruct HI' as (I1' & _).
      destruct (I1 _ _ Hl) as [Hk Tt]. destruct (I1' _ _ Hl') as [Hk' Tt']. apply mk_inj; congruence. }
    subst t'. apply IH; auto; intros o' Hin; [apply Hq|apply Ht|apply Hnp]; right; exact Hin.
  Qed.

  Lemma run_Inv : forall ops s, Inv s -> quiet ops -> texts_in ops -> Inv (run s ops).
  Proof.
    induction ops as [|o ops IH]; intros s HI Hq Ht; cbn [CDS.run]; [auto|].
    apply IH; [apply step_Inv; [exact HI|apply Hq; left; reflexivity|apply Ht; left; reflexivity]| |];
      intros o' Hin; [apply Hq|apply Ht]; right; exact Hin.
  Qed.

  (* resolving a reference whose content is in the backend yields an object with that content - through
     this instance's LRU ... *)
  Lemma resolve_ref_content : forall s t, Inv s -> lookupS (mk t) (store s) = Some t ->
    exists s' a, resolve s (mk t) = (s', Some a) /\ lookupA a (heap s') = Some (deser t).
  Proof.
    intros s t HI Hl. unfold CDS.resolve. rewrite is_ref_mk.
    destruct HI as (I1 & I3 & I4 & I5). destruct (I1 _ _ Hl) as [_ Tt].
    destruct (lookupS (mk t) (lru s)) as [[a|t0]|] eqn:El.
    - apply lookupS_In in El. destruct (I3 _ _ El) as (t1 & Hk & Tt1 & Hx). assert (t = t1) by (apply mk_inj; auto). subst t1.
      eexists. exists a. split; [reflexivity|]. exact Hx.
    - apply lookupS_In in El. destruct (I3 _ _ El) as (t1 & Hk & Tt1 & Hx). assert (t = t1) by (apply mk_inj; auto). subst t1. subst t0.
      eexists. exists (next s). split; [reflexivity|]. cbn. rewrite N.eqb_refl. reflexivity.
    - rewrite Hl. eexists. exists (next s). split; [reflexivity|]. cbn. rewrite N.eqb_refl. reflexivity.
  Qed.

  (* ... and on any other instance over the same backend *)
  Lemma resolve_cold_ref_content : forall s t, lookupS (mk t) (store s) = Some t ->
    exists s' a, resolve_cold s (mk t) = (s', Some a) /\ lookupA a (heap s') = Some (deser t).
  Proof.
    intros s t Hl. unfold CDS.resolve_cold. rewrite is_ref_mk, Hl.
    eexists. exists (next s). split; [reflexivity|]. cbn. rewrite N.eqb_refl. reflexivity.
  Qed.

  (* MAIN: whatever happened before (ops1: purges by this or another instance included) and happens
     afterwards (ops2: anything but a purge), the text returned by serialize for a value v - inline or
     reference - resolves to an object whose value is v, on this instance AND on any other instance
     over the same backend.  Needs the structural fact that _maybe_store writes the row every time. *)
  Theorem resolve_serialize : store_skip_known f = false -> forall ops1 ops2 v dis s2 d,
    quiet ops1 -> texts_in ops1 -> quiet ops2 -> texts_in ops2 -> no_purge ops2 -> T (ser v) ->
    (ref_passthrough f = true -> disabled c || dis = false -> as_ref v = None) ->
    serialize (run (st0 V) ops1) v dis = (s2, d) ->
    (exists s4 a, resolve (run s2 ops2) d = (s4, Some a) /\ lookupA a (heap s4) = Some v) /\
    (exists s4 a, resolve_cold (run s2 ops2) d = (s4, Some a) /\ lookupA a (heap s4) = Some v).
  Proof.
    intros Hskip ops1 ops2 v dis s2 d Hq1 Ht1 Hq2 Ht2 Hnp Tv Hguard Hs.
    pose proof (run_Inv ops1 (st0 V) Inv_st0 Hq1 Ht1) as HI1.
    pose proof (serialize_Inv _ _ _ _ _ HI1 Tv Hs) as HI2.
    assert (Hinline : d = ser v ->
      (exists s4 a, resolve (run s2 ops2) d = (s4, Some a) /\ lookupA a (heap s4) = Some v) /\
      (exists s4 a, resolve_cold (run s2 ops2) d = (s4, Some a) /\ lookupA a (heap s4) = Some v)).
    { intros ->. unfold CDS.resolve, CDS.resolve_cold. rewrite ser_not_ref. cbn [alloc].
      split; (eexists; eexists; split; [reflexivity|]; cbn; rewrite N.eqb_refl; rewrite ser_deser; reflexivity). }
    unfold CDS.serialize in Hs. cbn [alloc] in Hs.
    destruct (disabled c || dis) eqn:Ed; [inversion Hs; subst; apply Hinline; reflexivity|].
    assert (Hnone : (if ref_passthrough f then as_ref v else None) = None).
    { destruct (ref_passthrough f); [apply Hguard; reflexivity|reflexivity]. }
    rewrite Hnone in Hs. rewrite Hskip in Hs. cbn [andb] in Hs.
    destruct (route f c (slen (ser v))); [|inversion Hs; subst; apply Hinline; reflexivity].
    injection Hs as Hs2 Hd. subst d.
    assert (Hl : lookupS (mk (ser v)) (store s2) = Some (ser v)) by (rewrite <- Hs2; cbn; apply lookupS_upsert_same).
    destruct (run_Inv_keep ops2 s2 _ _ HI2 Hq2 Ht2 Hnp Hl) as [HI3 Hl3].
    split.
    - destruct (resolve_ref_content _ _ HI3 Hl3) as (s4 & a & Hr & Ha).
      exists s4, a. split; [exact Hr|]. rewrite Ha, ser_deser. reflexivity.
    - destruct (resolve_cold_ref_content _ _ Hl3) as (s4 & a & Hr & Ha).
      exists s4, a. split; [exact Hr|]. rewrite Ha, ser_deser. reflexivity.
  Qed.

  (* content addressing: the reference is a function of the serialized content only *)
  Lemma reference_of_content : forall s1 s2 v1 v2,
    disabled c = false -> as_ref v1 = None -> as_ref v2 = None -> ser v1 = ser v2 ->
    snd (serialize s1 v1 false) = snd (serialize s2 v2 false).
  Proof.
    intros s1 s2 v1 v2 Hd H1 H2 Heq. unfold CDS.serialize. cbn [alloc]. rewrite Hd. cbn [orb].
    rewrite H1, H2, Heq. destruct (ref_passthrough f); destruct (route f c (slen (ser v2))); reflexivity.
  Qed.

  (* inline / external boundary, as the comparison operators in the source say *)
  Lemma external_iff : forall s v, disabled c = false -> (if ref_passthrough f then as_ref v else None) = None ->
    (is_ref f (snd (serialize s v false)) = true <-> route f c (slen (ser v)) = true).
  Proof.
    intros s v Hd Hn. unfold CDS.serialize. cbn [alloc]. rewrite Hd, Hn. cbn [orb].
    destruct (route f c (slen (ser v))); cbn [snd].
    - rewrite is_ref_mk. tauto.
    - rewrite ser_not_ref. split; discriminate.
  Qed.
End CDSProofs.

(* the LRU never exceeds its capacity (capacity >= 1) *)
Lemma length_upsertS : forall (A : Type) k (x : A) l y, lookupS k l = Some y -> length (upsertS k x l) = length l.
Proof.
  intros A k x l y. induction l as [|[k' v'] l IH]; cbn; [discriminate|].
  destruct (str_eqb k k'); cbn; [reflexivity|]. intros Hl. f_equal. apply IH. exact Hl.
Qed.

Lemma lru_put_bounded : forall (A : Type) cap k (x : A) l, 1 <= cap -> N.of_nat (length l) <= cap ->
  N.of_nat (length (lru_put cap k x l)) <= cap.
Proof.
  intros A cap k x l Hc Hl. unfold lru_put.
  destruct (cap <=? N.of_nat (length l)) eqn:E.
  - apply N.leb_le in E. assert (Hlen : N.of_nat (length l) = cap) by lia.
    destruct l as [|e l]; cbn [tl length] in *; [lia|].
    destruct (lookupS k l) eqn:El.
    + erewrite length_upsertS by exact El. lia.
    + rewrite app_length. cbn. lia.
  - apply N.leb_gt in E. destruct (lookupS k l) eqn:El.
    + erewrite length_upsertS by exact El. lia.
    + rewrite app_length. cbn. lia.
Qed.

(* ---------- the aliasing defect: an LRU of live objects resolves to the mutated object ---------- *)
Definition idS (s : str) : str := s.
Definition noref (s : str) : option str := None.
Definition alias_conf : cds_conf := {| disabled := false; min_size := 0; max_size := 0; lru_cap := 4 |}.

Lemma lru_object_alias_refuted : forall f, lru_holds_object f = true ->
  exists (ops : list (op str)) v s2 d s4 a w,
    serialize str idS noref idS f alias_conf (st0 str) v false = (s2, d) /\
    resolve str idS f alias_conf (run str idS idS noref idS f alias_conf s2 ops) d = (s4, Some a) /\
    lookupA a (heap s4) = Some w /\ w <> v.
Proof.
  intros f Hf.
  exists [OMut 0 [50]], [49].
  unfold serialize, resolve. cbn [alloc st0 next heap store lru].
  assert (Hroute : route f alias_conf (slen [49]) = true).
  { unfold route, alias_conf. cbn [min_size max_size]. destruct (inline_cmp f); reflexivity. }
  cbn [disabled alias_conf orb]. fold alias_conf.
  assert (Hp : (if ref_passthrough f then noref [49] else None) = None) by (destruct (ref_passthrough f); reflexivity).
  rewrite Hp. unfold idS at 1 2. rewrite Hroute.
  eexists. eexists. eexists. eexists. eexists. split; [reflexivity|].
  cbn [run step fst store lru heap next set_heap N.eqb].
  unfold is_ref, mkkey. rewrite starts_with_app.
  unfold lru_put. cbn [length lru_cap alias_conf N.of_nat N.leb N.compare tl lookupS app].
  cbn [lookupS]. rewrite str_eqb_refl. unfold entry. rewrite Hf.
  split; [reflexivity|]. cbn. split; [reflexivity|discriminate].
Qed.

(* the reserved-prefix guard is necessary: a str value that looks like a reference is passed through
   and then resolved as a reference (KeyError) instead of coming back as the string *)
Lemma reference_like_string_refuted : forall f, ref_passthrough f = true ->
  exists v s2 d,
    serialize str jquote (fun v => if starts_with (ref_prefix f) v then Some v else None) idS f alias_conf (st0 str) v false = (s2, d) /\
    snd (resolve str idS f alias_conf s2 d) = None.
Proof.
  intros f Hf. exists (ref_prefix f ++ [120]).
  unfold serialize. cbn [alloc]. cbn [disabled alias_conf orb]. rewrite Hf, starts_with_app.
  eexists. eexists. split; [reflexivity|].
  unfold resolve, is_ref. rewrite starts_with_app. reflexivity.
Qed.

(* ---------- the stale-dedup defect: skipping the backend write for remembered keys ---------- *)
(* A process-local "already stored" set cannot know that the shared backend was purged: after a purge
   by ANOTHER instance the same content is serialized again, the write is skipped, and the reference
   serialize just returned does not resolve on any other instance (nor here once the LRU drops it). *)
Definition stale_refuted (f : cds_facts) : Prop :=
  exists (ops1 : list (op str)) v s2 d,
    no_purge str [] /\
    serialize str idS noref idS f alias_conf (run str idS idS noref idS f alias_conf (st0 str) ops1) v false = (s2, d) /\
    snd (resolve_cold str idS f s2 d) = None.

Lemma route_alias_conf : forall f n, route f alias_conf (slen (n :: nil)) = true.
Proof. intros f n. unfold route, alias_conf. cbn [min_size max_size]. destruct (inline_cmp f); reflexivity. Qed.

Lemma skip_known_refuted : forall f, store_skip_known f = true -> stale_refuted f.
Proof.
  intros f Hf. exists [OSer [49] false; OPurgeExt], [49].
  assert (Hp : (if ref_passthrough f then noref [49] else None) = None) by (destruct (ref_passthrough f); reflexivity).
  cbn [run step fst].
  unfold serialize at 2. cbn [alloc st0 next heap store lru known]. cbn [disabled alias_conf orb]. fold alias_conf.
  rewrite Hp. unfold idS. rewrite route_alias_conf. rewrite Hf. cbn [andb memS fst]. unfold purge_ext. cbn [store lru heap next known].
  unfold serialize. cbn [alloc next heap store lru known]. cbn [disabled alias_conf orb]. fold alias_conf.
  rewrite Hp. unfold idS. rewrite route_alias_conf. rewrite Hf. cbn [andb memS]. rewrite str_eqb_refl. cbn [orb].
  eexists. eexists. split; [intros o []|]. split; [reflexivity|].
  unfold resolve_cold, is_ref, mkkey. rewrite starts_with_app. reflexivity.
Qed.

(* the same with the instance's OWN purge() when it forgets the LRU and the backend but not the set *)
Lemma skip_known_own_purge_refuted : forall f, store_skip_known f = true -> purge_clears_known f = false ->
  exists v s2 d,
    serialize str idS noref idS f alias_conf (run str idS idS noref idS f alias_conf (st0 str) [OSer v false; OPurge]) v false = (s2, d) /\
    snd (resolve_cold str idS f s2 d) = None.
Proof.
  intros f Hf Hc. exists [49].
  assert (Hp : (if ref_passthrough f then noref [49] else None) = None) by (destruct (ref_passthrough f); reflexivity).
  cbn [run step fst].
  unfold serialize at 2. cbn [alloc st0 next heap store lru known]. cbn [disabled alias_conf orb]. fold alias_conf.
  rewrite Hp. unfold idS. rewrite route_alias_conf. rewrite Hf. cbn [andb memS fst]. unfold purge_own. rewrite Hc.
  cbn [store lru heap next known].
  unfold serialize. cbn [alloc next heap store lru known]. cbn [disabled alias_conf orb]. fold alias_conf.
  rewrite Hp. unfold idS. rewrite route_alias_conf. rewrite Hf. cbn [andb memS]. rewrite str_eqb_refl. cbn [orb].
  eexists. eexists. split; [reflexivity|].
  unfold resolve_cold, is_ref, mkkey. rewrite starts_with_app. reflexivity.
Qed.

(* the no-purge guard of resolve_serialize is necessary: purge() is the documented way to drop every
   stored value, a reference created BEFORE it is gone afterwards (KeyError), whatever the facts *)
Lemma purge_drops_references : forall f,
  exists v s2 d,
    serialize str idS noref idS f alias_conf (st0 str) v false = (s2, d) /\
    snd (resolve str idS f alias_conf (run str idS idS noref idS f alias_conf s2 [OPurge]) d) = None.
Proof.
  intros f. exists [49].
  assert (Hp : (if ref_passthrough f then noref [49] else None) = None) by (destruct (ref_passthrough f); reflexivity).
  unfold serialize. cbn [alloc st0 next heap store lru known]. cbn [disabled alias_conf orb]. fold alias_conf.
  rewrite Hp. unfold idS. rewrite route_alias_conf.
  eexists. eexists. split; [reflexivity|].
  cbn [run step fst]. unfold purge_own. unfold resolve, is_ref, mkkey. rewrite starts_with_app.
  cbn [store lru lookupS]. reflexivity.
Qed.

(* What holds on the CURRENT tree is decided by the generated fact: an LRU of live objects is
   refuted by a mutation; an LRU of serialized texts makes every trace quiet, so that
   resolve_serialize holds for all traces, mutations included. *)
Lemma quiet_when_text_cached : forall V f (ops : list (op V)), lru_holds_object f = false -> quiet V f ops.
Proof. intros V f ops Hf o _. left. exact Hf. Qed.

Definition alias_refuted (f : cds_facts) : Prop :=
  exists (ops : list (op str)) v s2 d s4 a w,
    serialize str idS noref idS f alias_conf (st0 str) v false = (s2, d) /\
    resolve str idS f alias_conf (run str idS idS noref idS f alias_conf s2 ops) d = (s4, Some a) /\
    lookupA a (heap s4) = Some w /\ w <> v.

Lemma alias_dichotomy : forall f,
  if lru_holds_object f then alias_refuted f else (forall V (ops : list (op V)), quiet V f ops).
Proof.
  intros f. destruct (lru_holds_object f) eqn:E.
  - apply lru_object_alias_refuted. exact E.
  - intros V ops. apply quiet_when_text_cached. exact E.
Qed.

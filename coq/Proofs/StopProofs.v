(* Proofs/StopProofs.v — lemmas behind Props/C11.v *)
From Coq Require Import List Bool Arith Lia.
Import ListNotations.
From PV Require Import Model.Status Model.Stop Model.ThreadRunner Proofs.ThreadRunnerProofs.

Lemma tphase_eqb_eq : forall a b, tphase_eqb a b = true -> a = b.
Proof. intros [] []; cbn; intros H; try discriminate; reflexivity. Qed.
Lemma sphase_eqb_eq : forall a b, sphase_eqb a b = true -> a = b.
Proof.
  intros [] []; cbn; intros H; try discriminate; try reflexivity;
    repeat match goal with
           | H : _ && _ = true |- _ => apply andb_true_iff in H; destruct H
           | H : Bool.eqb _ _ = true |- _ => apply Bool.eqb_prop in H; subst
           end; reflexivity.
Qed.
Lemma status_eqb_eq' : forall a b, status_eqb a b = true -> a = b.
Proof. intros a b; unfold status_eqb; destruct (status_eq_dec a b); congruence. Qed.
Lemma orunner_eqb_eq' : forall a b, orunner_eqb a b = true -> a = b.
Proof. intros [a|] [b|]; cbn; intros H; try discriminate; [apply Nat.eqb_eq in H; congruence|reflexivity]. Qed.

Lemma lstate_eqb_eq : forall a b, lstate_eqb a b = true -> a = b.
Proof.
  intros [s1 o1 q1 t1 p1] [s2 o2 q2 t2 p2]. unfold lstate_eqb. cbn. intros H.
  repeat (apply andb_true_iff in H; destruct H as [H ?]).
  apply status_eqb_eq' in H. apply orunner_eqb_eq' in H3. apply Nat.eqb_eq in H2.
  apply tphase_eqb_eq in H1. apply sphase_eqb_eq in H0. congruence.
Qed.

Lemma lmem_in : forall s l, lmem s l = true -> In s l.
Proof.
  intros s l H. unfold lmem in H. apply existsb_exists in H. destruct H as [x [Hx He]].
  apply lstate_eqb_eq in He. now subst.
Qed.

Section Closure.
Variable step : lstate -> label -> lstate.
Variable R : list lstate.
Hypothesis Hclosed : closed step R = true.
Hypothesis Hinit : lmem linit R = true.
Hypothesis Hlabels : forall l, In l all_labels \/ exists c, l = LThread c.

(* thread choices beyond 2 behave like 2 *)
Hypothesis Hchoice : forall s c, step s (LThread (S (S c))) = step s (LThread 2).

Lemma step_stays : forall s l, In s R -> In (step s l) R.
Proof.
  intros s l Hs. unfold closed in Hclosed. rewrite forallb_forall in Hclosed.
  specialize (Hclosed s Hs). rewrite forallb_forall in Hclosed.
  destruct (Hlabels l) as [Hl|[c ->]].
  - apply lmem_in. now apply Hclosed.
  - destruct c as [|[|c]].
    + apply lmem_in. apply Hclosed. cbn. auto.
    + apply lmem_in. apply Hclosed. cbn. auto.
    + rewrite Hchoice. apply lmem_in. apply Hclosed. cbn. auto.
Qed.

Lemma grun_stays : forall sched g, Forall (fun s => In s R) g -> Forall (fun s => In s R) (grun step g sched).
Proof.
  induction sched as [|[i l] sched IH]; intros g Hg; cbn; [exact Hg|]. apply IH.
  clear IH. revert i. induction Hg as [|s g Hs Hg IHg]; intros i; [destruct i; constructor|].
  destruct i; constructor; auto. now apply step_stays.
Qed.
End Closure.

Lemma all_labels_cover : forall l, In l all_labels \/ exists c, l = LThread c.
Proof. intros [c| | | | | |]; cbn; auto 12. right. eauto. Qed.

Lemma choice_collapse : forall k a r i s c,
  lstep k a r i s (LThread (S (S c))) = lstep k a r i s (LThread 2).
Proof. intros. cbn. unfold thread_step. destruct (lth s); reflexivity. Qed.

(* the reachable set of the component machine under the facts of the current tree shape *)
Definition R_good : list lstate := fst (explore (lstep true true true true) 3000 [linit] [linit]).

Lemma R_good_closed : closed (lstep true true true true) R_good = true.
Proof. vm_compute. reflexivity. Qed.
Lemma R_good_init : lmem linit R_good = true.
Proof. vm_compute. reflexivity. Qed.
Lemma R_good_post : forallb post R_good = true.
Proof. vm_compute. reflexivity. Qed.

Global Opaque R_good.

Lemma stop_post_all : forall n sched,
  Forall (fun s => post s = true) (grun (lstep true true true true) (repeat linit n) sched).
Proof.
  intros n sched.
  assert (Forall (fun s => In s R_good) (repeat linit n)) as H0.
  { apply Forall_forall. intros s Hs. apply repeat_spec in Hs. subst. apply lmem_in. exact R_good_init. }
  pose proof (grun_stays (lstep true true true true) R_good R_good_closed all_labels_cover
                (choice_collapse true true true true) sched _ H0) as H.
  pose proof R_good_post as Hp. rewrite forallb_forall in Hp.
  rewrite Forall_forall in H. apply Forall_forall. intros s Hs. apply Hp. apply H. exact Hs.
Qed.

(* without the reroute after KILLED an invocation is stranded KILLED *)
Lemma no_reroute_strands :
  exists sched, exists s, In s (grun (lstep true true false true) [linit] sched) /\ lsp s = SDone /\ lst s = KILLED /\ lq s = 0.
Proof.
  exists [(0, LThread 0); (0, LStop); (0, LStop); (0, LStop); (0, LThread 0); (0, LThread 0); (0, LStop)].
  eexists. split; [left; reflexivity|]. vm_compute. repeat split.
Qed.

(* a refused kill that escapes aborts the stop *)
Lemma escaping_refusal_aborts :
  exists sched, exists s, In s (grun (lstep true true true false) [linit] sched) /\ lsp s = SAbort.
Proof.
  exists [(0, LThread 0); (0, LThread 0); (0, LStop); (0, LStop); (0, LThread 0); (0, LStop)].
  eexists. split; [left; reflexivity|]. vm_compute. reflexivity.
Qed.

(* ---------- the stop does not complete when a parent waits on a child that is still queued ---------- *)
Definition hang_state : rstate :=
  run prog_parent_child 1 true true (init 2 [0]) [SLoop; SThread 0; SThread 0; SThread 0].

Definition is_thread_step (a : rstep) : Prop := match a with SThread _ => True | SLoop => False end.

Lemma hang_thread_steps_change_nothing : forall l, Forall is_thread_step l ->
  run prog_parent_child 1 true true hang_state l = hang_state.
Proof.
  induction l as [|a l IH]; intros H; [reflexivity|]. inversion H as [|? ? Ha Hl]; subst.
  cbn [run fold_left]. destruct a as [|i]; [contradiction|].
  assert (step prog_parent_child 1 true true hang_state (SThread i) = hang_state) as ->.
  { destruct i as [|[|i]]; try (vm_compute; reflexivity).
    unfold step, thread_step, st_of. cbn. destruct i; reflexivity. }
  now apply IH.
Qed.

Lemma hang_parent_alive : st_of hang_state 0 = Running 1 true true /\ st_of hang_state 1 = Registered.
Proof. vm_compute. split; reflexivity. Qed.

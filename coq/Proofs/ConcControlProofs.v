(* Proofs/ConcControlProofs.v — lemmas behind Props/C06.v and Props/C07.v *)
From Coq Require Import List Bool Arith Lia.
Import ListNotations.
From PV Require Import Model.Status Model.ConcControl.

Lemma list_eqb_eq : forall a b, list_eqb a b = true <-> a = b.
Proof. intros a b; unfold list_eqb; destruct (list_eq_dec Nat.eq_dec a b); split; congruence. Qed.
Lemma list_eqb_sym : forall a b, list_eqb a b = list_eqb b a.
Proof.
  intros a b. destruct (list_eqb a b) eqn:E, (list_eqb b a) eqn:F; try reflexivity.
  - apply list_eqb_eq in E. subst. unfold list_eqb in F. destruct (list_eq_dec Nat.eq_dec b b); congruence.
  - apply list_eqb_eq in F. subst. unfold list_eqb in E. destruct (list_eq_dec Nat.eq_dec a a); congruence.
Qed.
Lemma st_eqb_eq : forall a b, status_eqb a b = true <-> a = b.
Proof. intros a b; unfold status_eqb; destruct (status_eq_dec a b); split; congruence. Qed.

Lemma key_len : forall m a b, length a = length b -> length (key_of m a) = length (key_of m b).
Proof. intros m a b H; destruct m; cbn; try reflexivity; [assumption|now rewrite !map_length]. Qed.

Lemma NoDup_snoc : forall (l : list nat) x, NoDup l -> ~ In x l -> NoDup (l ++ [x]).
Proof.
  induction l as [|a l IH]; intros x Hn Hx; cbn; [constructor; [intros []|constructor]|].
  inversion Hn as [|? ? Ha Hn']; subst. constructor.
  - intros Hin. apply in_app_or in Hin. destruct Hin as [Hin|[<-|[]]]; [contradiction|]. apply Hx. now left.
  - apply IH; [assumption|]. intros Hin. apply Hx. now right.
Qed.

Section WithCfg.
Variable cfg : nat -> tcfg.
Variable arity : nat -> nat.
Variable bix : bool.     (* does the batch path index arguments? *)

(* same_key, for indexed invocations whose argument list has the task's arity *)
Lemma same_key_spec : forall m t args i,
  cindexed i = true -> length (cargs i) = length args ->
  same_key m t args i = Nat.eqb (ctask i) t && list_eqb (key_of m (cargs i)) (key_of m args).
Proof.
  intros m t args i Hi Hl. unfold same_key. f_equal.
  pose proof (key_len m _ _ Hl) as Hk.
  destruct (key_of m args) as [|x k] eqn:E.
  - destruct (key_of m (cargs i)); [reflexivity|discriminate].
  - rewrite Hi. reflexivity.
Qed.

(* ---------- well-formed states ---------- *)
Definition WF (s : cstate) : Prop :=
  NoDup (map cid (invs s)) /\
  forall i, In i (invs s) ->
    cid i < next_id s /\ length (cargs i) = arity (ctask i) /\
    (indexed_on_submit cfg (ctask i) = true -> (bix = true \/ mode_on (reg_mode (cfg (ctask i))) = true) -> cindexed i = true).

(* no two distinct invocations of one task (mode on) in the status class P share the key *)
Definition PInv (mode_of : tcfg -> cmode) (P : status -> bool) (s : cstate) : Prop :=
  forall i j, In i (invs s) -> In j (invs s) -> cid i <> cid j -> ctask i = ctask j ->
    mode_on (mode_of (cfg (ctask i))) = true -> P (cst i) = true -> P (cst j) = true ->
    list_eqb (key_of (mode_of (cfg (ctask i))) (cargs i)) (key_of (mode_of (cfg (ctask i))) (cargs j)) = false.

Definition is_registered (s : status) : bool := status_eqb s REGISTERED.

Definition wf_op (o : cop) : Prop :=
  match o with
  | OSubmit t args => length args = arity t
  | OBatch t argss => Forall (fun a => length a = arity t) argss
  | _ => True
  end.

(* ---------- list plumbing ---------- *)
Lemma in_update : forall id f l j, In j (update id f l) ->
  exists i, In i l /\ j = (if Nat.eqb (cid i) id then f i else i).
Proof. intros id f l j H. unfold update in H. apply in_map_iff in H. destruct H as [i [He Hi]]. eauto. Qed.

Lemma in_set_status : forall s id st' o j, In j (invs (set_status s id st' o)) ->
  exists i, In i (invs s) /\ cid j = cid i /\ ctask j = ctask i /\ cargs j = cargs i /\ cindexed j = cindexed i /\
            ((cid i = id /\ cst j = st') \/ (cid i <> id /\ cst j = cst i)).
Proof.
  intros s id st' o j H. cbn in H. apply in_update in H. destruct H as [i [Hi ->]].
  exists i. split; [assumption|].
  destruct (Nat.eqb_spec (cid i) id); cbn; repeat split; auto.
Qed.

Lemma find_inv_in : forall id l i, find_inv id l = Some i -> In i l /\ cid i = id.
Proof.
  induction l as [|x l IH]; intros i H; cbn in H; [discriminate|].
  destruct (Nat.eqb_spec (cid x) id).
  - inversion H; subst. split; [now left|reflexivity].
  - destruct (IH i H). split; [now right|assumption].
Qed.

(* ---------- WF preservation ---------- *)
Lemma update_cids : forall id st' o l, map cid (update id (fun i => set_inv i st' o) l) = map cid l.
Proof.
  intros id st' o l. unfold update. rewrite map_map. apply map_ext. intros i.
  destruct (Nat.eqb (cid i) id); reflexivity.
Qed.

Lemma WF_set_status : forall s id st' o, WF s -> WF (set_status s id st' o).
Proof.
  intros s id st' o [Hnd H]. split.
  - cbn. now rewrite update_cids.
  - intros j Hj. destruct (in_set_status _ _ _ _ _ Hj) as [i (Hi & Hc & Ht & Ha & Hx & _)].
    destruct (H i Hi) as (H1 & H2 & H3). cbn. rewrite Hc, Ha, Ht, Hx. auto.
Qed.

Lemma WF_queue : forall s q, WF s -> WF {| invs := invs s; cqueue := q; next_id := next_id s |}.
Proof. intros s q H. exact H. Qed.

Lemma WF_new : forall s t args ix, WF s -> length args = arity t ->
  (indexed_on_submit cfg t = true -> (bix = true \/ mode_on (reg_mode (cfg t)) = true) -> ix = true) -> WF (new_inv s t args ix).
Proof.
  intros s t args ix [Hnd H] Hl Hx. split.
  - cbn. rewrite map_app. cbn. apply NoDup_snoc; [assumption|].
    intros Hin. apply in_map_iff in Hin. destruct Hin as [i [Hc Hi]]. destruct (H i Hi) as (H1 & _). lia.
  - intros i Hi. cbn in Hi. apply in_app_or in Hi. destruct Hi as [Hi|[<-|[]]].
    + destruct (H i Hi) as (H1 & H2 & H3). cbn. repeat split; auto.
    + cbn. repeat split; auto.
Qed.

Lemma WF_unique : forall s i j, WF s -> In i (invs s) -> In j (invs s) -> cid i = cid j -> i = j.
Proof.
  intros s i j [Hnd _] Hi Hj Hc. revert Hnd Hi Hj. generalize (invs s) as l.
  induction l as [|x l IH]; intros Hnd Hi Hj; [contradiction|].
  cbn in Hnd. inversion Hnd as [|? ? Hn Hnd']; subst.
  destruct Hi as [<-|Hi]; destruct Hj as [<-|Hj]; auto.
  - exfalso. apply Hn. rewrite Hc. now apply in_map.
  - exfalso. apply Hn. rewrite <- Hc. now apply in_map.
Qed.

(* ---------- PInv preservation under status changes ---------- *)
Lemma PInv_set_status : forall mode_of P s id st' o,
  PInv mode_of P s ->
  (P st' = true ->
     (* entering (or staying in) the class: either it was already in it, or nobody with the same key is *)
     forall i, In i (invs s) -> cid i = id ->
       P (cst i) = true \/
       (forall j, In j (invs s) -> cid j <> id -> ctask j = ctask i ->
          mode_on (mode_of (cfg (ctask i))) = true -> P (cst j) = true ->
          list_eqb (key_of (mode_of (cfg (ctask i))) (cargs i)) (key_of (mode_of (cfg (ctask i))) (cargs j)) = false)) ->
  PInv mode_of P (set_status s id st' o).
Proof.
  intros mode_of P s id st' o H Hent a b Ha Hb Hne Ht Hm Pa Pb.
  destruct (in_set_status _ _ _ _ _ Ha) as [i (Hi & Hci & Hti & Hai & _ & Hsi)].
  destruct (in_set_status _ _ _ _ _ Hb) as [j (Hj & Hcj & Htj & Haj & _ & Hsj)].
  rewrite Hti, Hai, Haj. rewrite Hti in Hm. 
  assert (cid i <> cid j) as Hneij by congruence.
  assert (ctask i = ctask j) as Htij by congruence.
  destruct Hsi as [[Hid Hst]|[Hnid Hst]]; destruct Hsj as [[Hjd Hst2]|[Hnjd Hst2]].
  - congruence.
  - (* a is the changed one *)
    rewrite Hst in Pa. rewrite Hst2 in Pb.
    destruct (Hent Pa i Hi Hid) as [Pi|Hfree].
    + apply (H i j); auto.
    + apply Hfree; auto; congruence.
  - rewrite Hst in Pa. rewrite Hst2 in Pb.
    destruct (Hent Pb j Hj Hjd) as [Pj|Hfree].
    + apply (H i j); auto.
    + rewrite list_eqb_sym. rewrite Htij. apply Hfree; auto; try congruence; try (now rewrite <- Htij).
  - rewrite Hst in Pa. rewrite Hst2 in Pb. apply (H i j); auto.
Qed.

Lemma PInv_queue : forall mode_of P s q, PInv mode_of P s -> PInv mode_of P {| invs := invs s; cqueue := q; next_id := next_id s |}.
Proof. intros mode_of P s q H. exact H. Qed.

Lemma PInv_leave : forall mode_of P s id st' o, PInv mode_of P s -> P st' = false -> PInv mode_of P (set_status s id st' o).
Proof. intros. apply PInv_set_status; [assumption|]. intros Hp. congruence. Qed.

(* adding a new REGISTERED invocation *)
Lemma PInv_new : forall mode_of P s t args ix, WF s -> PInv mode_of P s ->
  (P REGISTERED = true -> mode_on (mode_of (cfg t)) = true ->
     forall j, In j (invs s) -> ctask j = t -> P (cst j) = true ->
       list_eqb (key_of (mode_of (cfg t)) args) (key_of (mode_of (cfg t)) (cargs j)) = false) ->
  PInv mode_of P (new_inv s t args ix).
Proof.
  intros mode_of P s t args ix _ H Hfree a b Ha Hb Hne Ht Hm Pa Pb.
  cbn in Ha, Hb. apply in_app_or in Ha. apply in_app_or in Hb.
  destruct Ha as [Ha|[<-|[]]]; destruct Hb as [Hb|[<-|[]]].
  - apply (H a b); auto.
  - cbn in *. rewrite list_eqb_sym. rewrite Ht. apply Hfree; auto. now rewrite <- Ht.
  - cbn in *. apply Hfree; auto.
  - cbn in Hne. congruence.
Qed.

Lemma in_statuses_pr : forall x, in_statuses x [PENDING; RUNNING] = is_pr x.
Proof. intros x; destruct x; reflexivity. Qed.
Lemma in_statuses_reg : forall x, in_statuses x [REGISTERED] = is_registered x.
Proof. intros x; destruct x; reflexivity. Qed.

(* nothing in `existing` (other than ids in `excl`)  ==>  keys differ from every class member *)
Lemma existing_empty_keys : forall s m t args sts P,
  (forall x, in_statuses x sts = P x) -> WF s -> mode_on m = true ->
  (mode_on m = true -> indexed_on_submit cfg t = true) -> (bix = true \/ mode_on (reg_mode (cfg t)) = true) ->
  length args = arity t ->
  forall excl,
  (forall j, In j (existing s m t args sts) -> cid j = excl) ->
  forall j, In j (invs s) -> cid j <> excl -> ctask j = t -> P (cst j) = true ->
    list_eqb (key_of m args) (key_of m (cargs j)) = false.
Proof.
  intros s m t args sts P HP [Hnd Hwf] Hm Hix Hb Hl excl Hex j Hj Hne Ht Pj.
  destruct (Hwf j Hj) as (_ & Hlen & Hidx).
  destruct (list_eqb (key_of m args) (key_of m (cargs j))) eqn:E; [exfalso|reflexivity].
  apply Hne. apply Hex. unfold existing. apply filter_In. split; [assumption|].
  rewrite HP, Pj, andb_true_r.
  rewrite same_key_spec; [|apply Hidx; rewrite Ht; [now apply Hix|exact Hb]|rewrite Hlen, Ht; now symmetry].
  rewrite Ht, Nat.eqb_refl. cbn. now rewrite list_eqb_sym.
Qed.

Definition RegInv := PInv reg_mode is_registered.
Definition RunInv := PInv run_mode is_pr.
Definition AllInv (s : cstate) : Prop := WF s /\ RegInv s /\ (bix = true -> RunInv s).

Lemma mode_on_reg_indexed : forall t, mode_on (reg_mode (cfg t)) = true -> indexed_on_submit cfg t = true.
Proof. intros t H. unfold indexed_on_submit. now rewrite H. Qed.
Lemma mode_on_run_indexed : forall t, mode_on (run_mode (cfg t)) = true -> indexed_on_submit cfg t = true.
Proof. intros t H. unfold indexed_on_submit. rewrite H. apply orb_true_r. Qed.

Lemma AllInv_leave : forall s id st' o, AllInv s -> is_registered st' = false -> is_pr st' = false ->
  AllInv (set_status s id st' o).
Proof.
  intros s id st' o (Hw & Hr & Hp) H1 H2. split; [now apply WF_set_status|].
  split; [apply PInv_leave; assumption|intros Hb; apply PInv_leave; [now apply Hp|assumption]].
Qed.

Lemma AllInv_push : forall s id, AllInv s -> AllInv (push s id).
Proof. intros s id H. exact H. Qed.

Lemma AllInv_new : forall s t args ix, AllInv s -> length args = arity t ->
  (indexed_on_submit cfg t = true -> (bix = true \/ mode_on (reg_mode (cfg t)) = true) -> ix = true) ->
  (mode_on (reg_mode (cfg t)) = true -> existing s (reg_mode (cfg t)) t args [REGISTERED] = []) ->
  AllInv (new_inv s t args ix).
Proof.
  intros s t args ix (Hw & Hr & Hp) Hl Hx Hex. split; [now apply WF_new|]. split.
  - apply PInv_new; [assumption|assumption|]. intros _ Hm j Hj Ht Pj.
    eapply (existing_empty_keys s (reg_mode (cfg t)) t args [REGISTERED] is_registered in_statuses_reg Hw Hm
              (fun _ => mode_on_reg_indexed t Hm) (or_intror Hm) Hl (S (next_id s))); try eassumption.
    + intros x Hx'. rewrite (Hex Hm) in Hx'. contradiction.
    + destruct Hw as [_ Hw]. destruct (Hw j Hj) as (Hlt & _). lia.
  - intros Hb. apply PInv_new; [assumption|now apply Hp|]. intros Hf. discriminate.
Qed.

Lemma batch_inv : forall argss s t acc, AllInv s -> mode_on (reg_mode (cfg t)) = false ->
  Forall (fun a => length a = arity t) argss -> AllInv (fst (batch cfg bix s t argss acc)).
Proof.
  induction argss as [|a rest IH]; intros s t acc H Hm Hf; cbn; [exact H|].
  inversion Hf; subst. apply IH; try assumption.
  apply AllInv_new; try assumption.
  - intros Hi [Hb|Hc]; [now rewrite Hi, Hb|congruence].
  - intros Hc. congruence.
Qed.

Lemma step_status_inv : forall s id from to rq, AllInv s -> is_registered to = false -> is_pr to = false ->
  AllInv (fst (step_status s id from to rq)).
Proof.
  intros s id from to rq H H1 H2. unfold step_status.
  destruct (find_inv id (invs s)) as [i|]; [|exact H].
  destruct (from (cst i)); [|exact H]. cbn.
  destruct rq; [apply AllInv_push|]; now apply AllInv_leave.
Qed.

Lemma cstep_inv : forall s o, wf_op o -> AllInv s -> AllInv (fst (cstep cfg bix true [REGISTERED] [PENDING; RUNNING] [RUNNING] s o)).
Proof.
  intros s o Hwf H. destruct o as [t args|t argss|r|id|id|id|id]; cbn [cstep].
  - (* submit *)
    cbn in Hwf. unfold submit.
    destruct (reg_mode (cfg t)) eqn:Em.
    + cbn. apply AllInv_new; auto. intros Hc. rewrite Em in Hc. discriminate.
    + destruct (existing s MTask t args [REGISTERED]) as [|e l] eqn:Ee; cbn.
      * apply AllInv_new; auto. intros _. now rewrite Em.
      * destruct (list_eqb (cargs e) args); [exact H|]. destruct (reg_raise (cfg t)); exact H.
    + destruct (existing s MArguments t args [REGISTERED]) as [|e l] eqn:Ee; cbn.
      * apply AllInv_new; auto. intros _. now rewrite Em.
      * destruct (list_eqb (cargs e) args); [exact H|]. destruct (reg_raise (cfg t)); exact H.
    + destruct (existing s (MKeys ks) t args [REGISTERED]) as [|e l] eqn:Ee; cbn.
      * apply AllInv_new; auto. intros _. now rewrite Em.
      * destruct (list_eqb (cargs e) args); [exact H|]. destruct (reg_raise (cfg t)); exact H.
  - (* batch *)
    cbn in Hwf. destruct (mode_on (reg_mode (cfg t))) eqn:Em; [exact H|].
    pose proof (batch_inv argss s t [] H Em Hwf) as Hbt.
    destruct (batch cfg bix s t argss []) as [s' ids]. exact Hbt.
  - (* poll *)
    unfold poll. destruct (cqueue s) as [|id rest] eqn:Eq; [exact H|].
    set (s1 := {| invs := invs s; cqueue := rest; next_id := next_id s |}).
    assert (AllInv s1) as H1 by exact H.
    destruct (find_inv id (invs s)) as [i|] eqn:Ef; [|exact H1].
    destruct (find_inv_in _ _ _ Ef) as [Hi Hid].
    destruct (negb (doc_available (cst i))) eqn:Ea; [exact H1|].
    destruct (blocked_by cfg s1 i [PENDING; RUNNING]) eqn:Eb.
    + destruct (run_reroute (cfg (ctask i))).
      * destruct (doc_edge (cst i) CONCURRENCY_CONTROLLED); [|exact H1].
        cbn. apply AllInv_push. now apply AllInv_leave.
      * destruct (doc_edge (cst i) CONCURRENCY_CONTROLLED_FINAL); [|exact H1].
        cbn. now apply AllInv_leave.
    + cbn. destruct H1 as (Hw & Hr & Hp). split; [now apply WF_set_status|]. split.
      * now apply PInv_leave.
      * intros Hbt. apply PInv_set_status; [now apply Hp|]. intros _ i' Hi' Hid'.
        assert (i' = i) as -> by (eapply WF_unique; try eassumption; congruence).
        right. intros j Hj Hne Ht Hm Pj.
        unfold blocked_by in Eb.
        destruct (run_mode (cfg (ctask i))) eqn:Erm; [discriminate| | |];
          (eapply (existing_empty_keys s1 _ (ctask i) (cargs i) [PENDING; RUNNING] is_pr in_statuses_pr Hw);
           [reflexivity
           |intros _; apply mode_on_run_indexed; rewrite Erm; reflexivity
           |left; exact Hbt
           |destruct Hw as [_ Hw']; apply (Hw' i Hi)
           |intros x Hx; destruct (Nat.eqb_spec (cid x) (cid i)) as [e|ne]; [exact e|];
            exfalso; assert (existsb (fun j0 => negb (Nat.eqb (cid j0) (cid i))) (existing s1 _ (ctask i) (cargs i) [PENDING; RUNNING]) = true) as Hx2
              by (apply existsb_exists; exists x; split; [exact Hx|apply negb_true_iff; now apply Nat.eqb_neq]);
            congruence
           |exact Hj|congruence|exact Ht|exact Pj]).
  - (* start *)
    destruct (find_inv id (invs s)) as [i|] eqn:Ef; [|exact H].
    destruct (find_inv_in _ _ _ Ef) as [Hi Hid].
    destruct (status_eqb (cst i) PENDING) eqn:Es; [|exact H].
    destruct (blocked_by cfg s i [RUNNING]); cbn.
    + apply AllInv_push. now apply AllInv_leave.
    + destruct H as (Hw & Hr & Hp). split; [now apply WF_set_status|]. split.
      * now apply PInv_leave.
      * intros Hbt. apply PInv_set_status; [now apply Hp|]. intros _ i' Hi' Hid'.
        assert (i' = i) as -> by (eapply WF_unique; try eassumption; congruence).
        left. apply st_eqb_eq in Es. now rewrite Es.
  - now apply step_status_inv.
  - now apply step_status_inv.
  - now apply step_status_inv.
Qed.

Lemma cexec_inv : forall ops s, Forall wf_op ops -> AllInv s -> AllInv (cexec cfg bix true [REGISTERED] [PENDING; RUNNING] [RUNNING] s ops).
Proof.
  induction ops as [|o ops IH]; intros s Hf H; cbn; [exact H|].
  inversion Hf; subst. apply IH; [assumption|]. now apply cstep_inv.
Qed.

Lemma AllInv_init : AllInv cstate0.
Proof. split; [split; [constructor|intros i []]|split; [|intros _]; intros i j []]. Qed.
End WithCfg.

(* ================= corollaries stated on the generated-facts instance ================= *)
Section Corollaries.
Variable cfg : nat -> tcfg.
Variable arity : nat -> nat.
Variable bix : bool.
Notation EXECb := (cexec cfg bix true [REGISTERED] [PENDING; RUNNING] [RUNNING]).
Notation EXEC := (cexec cfg true true [REGISTERED] [PENDING; RUNNING] [RUNNING]).
Notation STEP := (cstep cfg bix true [REGISTERED] [PENDING; RUNNING] [RUNNING]).

Lemma reg_unique : forall ops, Forall (wf_op arity) ops ->
  forall i j, In i (invs (EXECb cstate0 ops)) -> In j (invs (EXECb cstate0 ops)) ->
    cid i <> cid j -> ctask i = ctask j -> mode_on (reg_mode (cfg (ctask i))) = true ->
    cst i = REGISTERED -> cst j = REGISTERED ->
    key_of (reg_mode (cfg (ctask i))) (cargs i) <> key_of (reg_mode (cfg (ctask i))) (cargs j).
Proof.
  intros ops Hwf i j Hi Hj Hne Ht Hm Si Sj Hk.
  destruct (cexec_inv cfg arity bix ops cstate0 Hwf (AllInv_init cfg arity bix)) as (_ & Hr & _).
  specialize (Hr i j Hi Hj Hne Ht Hm). rewrite Si, Sj in Hr. specialize (Hr eq_refl eq_refl).
  apply list_eqb_eq in Hk. congruence.
Qed.

Lemma run_unique : forall ops, Forall (wf_op arity) ops ->
  forall i j, In i (invs (EXEC cstate0 ops)) -> In j (invs (EXEC cstate0 ops)) ->
    cid i <> cid j -> ctask i = ctask j -> mode_on (run_mode (cfg (ctask i))) = true ->
    is_pr (cst i) = true -> is_pr (cst j) = true ->
    key_of (run_mode (cfg (ctask i))) (cargs i) <> key_of (run_mode (cfg (ctask i))) (cargs j).
Proof.
  intros ops Hwf i j Hi Hj Hne Ht Hm Si Sj Hk.
  destruct (cexec_inv cfg arity true ops cstate0 Hwf (AllInv_init cfg arity true)) as (_ & _ & Hr).
  specialize (Hr eq_refl i j Hi Hj Hne Ht Hm Si Sj). apply list_eqb_eq in Hk. congruence.
Qed.

(* submission outcomes *)
Lemma reuse_spec : forall s t args e l,
  mode_on (reg_mode (cfg t)) = true -> existing s (reg_mode (cfg t)) t args [REGISTERED] = e :: l ->
  STEP s (OSubmit t args) =
    (s, if list_eqb (cargs e) args then CReused (cid e)
        else if reg_raise (cfg t) then CRaised else CReused (cid e)).
Proof.
  intros s t args e l Hm He. cbn [cstep]. unfold submit.
  destruct (reg_mode (cfg t)) eqn:Em; [discriminate| | |]; rewrite He;
    destruct (list_eqb (cargs e) args); try reflexivity; destruct (reg_raise (cfg t)); reflexivity.
Qed.

Lemma disabled_new : forall s t args, reg_mode (cfg t) = MDisabled ->
  snd (STEP s (OSubmit t args)) = CNew (next_id s) /\
  next_id (fst (STEP s (OSubmit t args))) = S (next_id s).
Proof. intros s t args Hm. cbn [cstep]. unfold submit. rewrite Hm. split; reflexivity. Qed.

(* a poll only refuses an available invocation when another one with the same key is PENDING/RUNNING *)
Lemma blocked_needs_same_key : forall s i sts, blocked_by cfg s i sts = true ->
  exists j, In j (invs s) /\ cid j <> cid i /\ ctask j = ctask i /\ in_statuses (cst j) sts = true /\
            same_key (run_mode (cfg (ctask i))) (ctask i) (cargs i) j = true.
Proof.
  intros s i sts H. unfold blocked_by in H.
  destruct (run_mode (cfg (ctask i))) eqn:Em; [discriminate| | |];
    (apply existsb_exists in H; destruct H as [j [Hj Hn]]; unfold existing in Hj; apply filter_In in Hj;
     destruct Hj as [Hj Hc]; apply andb_true_iff in Hc; destruct Hc as [Hk Hs];
     exists j; repeat split; auto;
     [apply negb_true_iff in Hn; now apply Nat.eqb_neq in Hn
     |unfold same_key in Hk; apply andb_true_iff in Hk; destruct Hk as [Hk _]; now apply Nat.eqb_eq in Hk]).
Qed.
End Corollaries.

(* ================= witnesses ================= *)
Definition cfg_args_reroute (_ : nat) : tcfg :=
  {| reg_mode := MDisabled; reg_raise := false; run_mode := MArguments; run_reroute := true |}.
Definition cfg_args_final (_ : nat) : tcfg :=
  {| reg_mode := MDisabled; reg_raise := false; run_mode := MArguments; run_reroute := false |}.

(* the batch path without the argument index: two same-key invocations RUNNING with ONE runner *)
Lemma batch_unindexed_two_running :
  let s := cexec cfg_args_reroute false true [REGISTERED] [PENDING; RUNNING] [RUNNING] cstate0
             [OBatch 0 [[7]; [7]]; OPoll 1; OStart 0; OPoll 1; OStart 1] in
  map cst (invs s) = [RUNNING; RUNNING] /\ map cargs (invs s) = [[7]; [7]].
Proof. vm_compute. split; reflexivity. Qed.

(* blocked while awaiting a retry: RETRY has no edge to CONCURRENCY_CONTROLLED(_FINAL): the poll raises *)
Lemma blocked_in_retry_raises :
  snd (crun cfg_args_reroute true true [REGISTERED] [PENDING; RUNNING] [RUNNING] cstate0
         [OSubmit 0 [7]; OSubmit 0 [7]; OPoll 1; OStart 0; ORetry 0; OPoll 1; OStart 1; OPoll 1])
  = [CNew 0; CNew 1; CClaimed 0; CDone; CDone; CClaimed 1; CDone; CPollRaises 0].
Proof. vm_compute. reflexivity. Qed.

(* blocked after a reroute with the "final" option: REROUTED has no edge to CONCURRENCY_CONTROLLED_FINAL *)
Lemma blocked_rerouted_final_raises :
  snd (crun cfg_args_final true true [REGISTERED] [PENDING; RUNNING] [RUNNING] cstate0
         [OSubmit 0 [7]; OSubmit 0 [7]; OPoll 1; OKill 0; OPoll 1; OStart 1; OPoll 1])
  = [CNew 0; CNew 1; CClaimed 0; CDone; CClaimed 1; CDone; CPollRaises 0].
Proof. vm_compute. reflexivity. Qed.

(* Proofs/CrashProofs.v — lemmas behind Props/C03.v.
   The component machine of Model/Crash.v (instantiated with the GENERATED effect sequences) is finite;
   its reachable set R, and inside it the ordered set G of states from which a finished state can be
   reached without any further crash, are computed once; one vm_compute checks that R is closed under
   all steps, that G is well-ranked, that R \ G is closed under live steps, that every state outside G
   is explained (a crash inside one of the listed windows, a poll that raised, or one about to), and
   that every listed window really strands.  Everything else is derived from those checks. *)
From Coq Require Import List Bool Arith PArith FMapPositive Lia.
Import ListNotations.
From PV Require Import Base.HashSet Model.Status Model.Crash Model.CrashSpec gen.CrashProgs_gen.

(* ---------- equality tests ---------- *)
Lemma eff_eqb_eq : forall a b, eff_eqb a b = true <-> a = b.
Proof.
  intros [] []; cbn; split; intros H; try discriminate; try reflexivity; try congruence.
  - unfold status_eqb in H. destruct (status_eq_dec to to0); congruence.
  - inversion H; subst. unfold status_eqb. destruct (status_eq_dec to0 to0); congruence.
Qed.
Lemma effs_eqb_eq : forall a b, effs_eqb a b = true <-> a = b.
Proof.
  induction a as [|x a IH]; intros [|y b]; cbn; split; intros H; try discriminate; try reflexivity.
  - apply andb_true_iff in H. destruct H as [H1 H2]. apply eff_eqb_eq in H1. apply IH in H2. congruence.
  - inversion H; subst. apply andb_true_iff. split; [now apply eff_eqb_eq|now apply IH].
Qed.
Lemma role_eqb_eq : forall a b, role_eqb a b = true <-> a = b.
Proof. intros [] []; cbn; split; intros H; try discriminate; try reflexivity; congruence. Qed.
Lemma orole_eqb_eq : forall a b, orole_eqb a b = true <-> a = b.
Proof.
  intros [a|] [b|]; cbn; split; intros H; try discriminate; try reflexivity.
  - apply role_eqb_eq in H. congruence.
  - inversion H. now apply role_eqb_eq.
Qed.
Lemma ocrash_eqb_eq : forall a b, ocrash_eqb a b = true <-> a = b.
Proof.
  intros [[r k]|] [[r' k']|]; cbn; split; intros H; try discriminate; try reflexivity.
  - apply andb_true_iff in H. destruct H as [H1 H2]. apply role_eqb_eq in H1. apply Nat.eqb_eq in H2. congruence.
  - inversion H; subst. apply andb_true_iff. split; [now apply role_eqb_eq|apply Nat.eqb_refl].
Qed.
Lemma orunner_eqb_eq2 : forall a b, orunner_eqb a b = true <-> a = b.
Proof.
  intros [a|] [b|]; cbn; split; intros H; try discriminate; try reflexivity.
  - apply Nat.eqb_eq in H. congruence.
  - inversion H. apply Nat.eqb_refl.
Qed.
Lemma status_eqb_eq2 : forall a b, status_eqb a b = true <-> a = b.
Proof. intros a b; unfold status_eqb; destruct (status_eq_dec a b); split; congruence. Qed.

Lemma cstate_eqb_eq : forall a b, cstate_eqb a b = true <-> a = b.
Proof.
  intros a b. split.
  - destruct a, b. unfold cstate_eqb. cbn. intros H.
    repeat match goal with H : _ && _ = true |- _ => apply andb_true_iff in H; destruct H end.
    repeat match goal with
           | H : status_eqb _ _ = true |- _ => apply status_eqb_eq2 in H
           | H : orunner_eqb _ _ = true |- _ => apply orunner_eqb_eq2 in H
           | H : Nat.eqb _ _ = true |- _ => apply Nat.eqb_eq in H
           | H : orole_eqb _ _ = true |- _ => apply orole_eqb_eq in H
           | H : effs_eqb _ _ = true |- _ => apply effs_eqb_eq in H
           | H : Bool.eqb _ _ = true |- _ => apply Bool.eqb_prop in H
           | H : ocrash_eqb _ _ = true |- _ => apply ocrash_eqb_eq in H
           end. subst. reflexivity.
  - intros ->. destruct b. unfold cstate_eqb. cbn.
    repeat (apply andb_true_iff; split);
      try (now apply status_eqb_eq2); try (now apply orunner_eqb_eq2); try apply Nat.eqb_refl;
      try (now apply orole_eqb_eq); try (now apply effs_eqb_eq); try apply Bool.eqb_reflx; try (now apply ocrash_eqb_eq).
Qed.


Lemma cmemh_index : forall l x, cmemh x (cindex l) = true <-> In x l.
Proof. intros l x. apply (hmem_index cstate cstate_eqb ckey cstate_eqb_eq). Qed.

Lemma label_cover : forall l, In l all_clabels.
Proof. intros [[]| | | |[]| |]; cbn; auto 30. Qed.

Lemma crun_app : forall step s a b, crun step s (a ++ b) = crun step (crun step s a) b.
Proof. intros. unfold crun. apply fold_left_app. Qed.

(* ---------- everything below is generic in the step function and in the two sets: nothing is ever unfolded ---------- *)
Section Generic.
Variable step : cstate -> clabel -> cstate.
Variables R G : list cstate.
Hypothesis Hck : check_all_on step R G = true.

Lemma checks :
  In cinit R /\ In cinit_x R /\ cclosed step R = true /\ ranked step G = true /\ bad_closed step R G = true /\
  forallb (fun s => cmemh s (cindex G) || explained s) R = true /\
  forallb (fun w => existsb (fun s => negb (cmemh s (cindex G)) && unexplained_by s w) R) windows = true.
Proof.
  pose proof Hck as H. unfold check_all_on in H. cbv zeta in H.
  apply andb_true_iff in H. destruct H as [H H7].
  apply andb_true_iff in H. destruct H as [H H6].
  apply andb_true_iff in H. destruct H as [H H5].
  apply andb_true_iff in H. destruct H as [H H4].
  apply andb_true_iff in H. destruct H as [H H3].
  apply andb_true_iff in H. destruct H as [H1 H2].
  split; [exact (proj1 (cmemh_index R cinit) H1)|]. split; [exact (proj1 (cmemh_index R cinit_x) H2)|].
  split; [exact H3|]. split; [exact H4|]. split; [exact H5|]. split; [exact H6|exact H7].
Qed.

Lemma step_in_R : forall s l, In s R -> In (step s l) R.
Proof.
  intros s l Hs. destruct checks as (_ & _ & Hc & _). unfold cclosed in Hc. rewrite forallb_forall in Hc.
  specialize (Hc s Hs). rewrite forallb_forall in Hc. apply cmemh_index. apply Hc. apply label_cover.
Qed.

Lemma run_in_R : forall ls s, In s R -> In (crun step s ls) R.
Proof. induction ls as [|l ls IH]; intros s H; cbn; [exact H|]. apply IH. now apply step_in_R. Qed.

Lemma reach_in_R : forall x, reach step x -> In x R.
Proof.
  intros x (s0 & ls & H0 & ->). destruct checks as (Hi & Hx & _). apply run_in_R.
  destruct H0 as [<-|[<-|[]]]; assumption.
Qed.

(* G: a finished state is reachable without any further crash *)
Lemma ranked_from_sound : forall rest pm,
  (forall x, cmemh x pm = true -> can_finish step x) ->
  ranked_from step pm rest = true -> forall x, In x rest -> can_finish step x.
Proof.
  induction rest as [|s rest IH]; intros pm Hpm Hr x Hx; [contradiction|].
  cbn [ranked_from] in Hr. apply andb_true_iff in Hr. destruct Hr as [Hs Hrest].
  assert (can_finish step s) as Hcs.
  { apply orb_true_iff in Hs. destruct Hs as [Hf|He].
    - exists []. split; [constructor|exact Hf].
    - apply existsb_exists in He. destruct He as [l [Hl Hm]].
      destruct (Hpm _ Hm) as [ls [Hlive Hfin]]. exists (l :: ls). split; [constructor; assumption|exact Hfin]. }
  destruct Hx as [<-|Hx]; [exact Hcs|].
  apply (IH (caddh s pm)); try assumption.
  intros y Hy. apply (hmem_hadd cstate cstate_eqb ckey cstate_eqb_eq) in Hy. destruct Hy as [->|Hy]; auto.
Qed.

Lemma good_can_finish : forall s, In s G -> can_finish step s.
Proof.
  intros s Hs. destruct checks as (_ & _ & _ & Hr & _). unfold ranked in Hr.
  eapply ranked_from_sound; [|exact Hr|exact Hs].
  intros x Hx. unfold cmemh, hmem, bucket in Hx. rewrite PositiveMap.gempty in Hx. discriminate.
Qed.

(* outside G nothing ever finishes as long as nobody else crashes *)
Lemma bad_facts : forall s, In s R -> ~ In s G ->
  finished s = false /\ forall l, In l live_labels -> ~ In (step s l) G.
Proof.
  intros s Hs Hng. destruct checks as (_ & _ & _ & _ & Hb & _). unfold bad_closed in Hb.
  rewrite forallb_forall in Hb. specialize (Hb s Hs). apply orb_true_iff in Hb. destruct Hb as [Hb|Hb].
  - apply cmemh_index in Hb. contradiction.
  - apply andb_true_iff in Hb. destruct Hb as [Hf Hall]. split; [now apply negb_true_iff|].
    intros l Hl. rewrite forallb_forall in Hall. specialize (Hall l Hl). apply negb_true_iff in Hall.
    intros Hin. apply cmemh_index in Hin. congruence.
Qed.

Lemma bad_never_finishes : forall ls s, In s R -> ~ In s G -> Forall (fun l => In l live_labels) ls ->
  finished (crun step s ls) = false.
Proof.
  induction ls as [|l ls IH]; intros s Hs Hng Hlive; cbn.
  - now destruct (bad_facts s Hs Hng).
  - inversion Hlive as [|? ? Hl Hrest]; subst. destruct (bad_facts s Hs Hng) as [_ Hn].
    apply IH; [now apply step_in_R|now apply Hn|assumption].
Qed.

Lemma bad_cannot_finish : forall s, In s R -> ~ In s G -> ~ can_finish step s.
Proof.
  intros s Hs Hng (ls & Hlive & Hfin). rewrite (bad_never_finishes ls s Hs Hng Hlive) in Hfin. discriminate.
Qed.

Lemma in_G_dec : forall s, {In s G} + {~ In s G}.
Proof.
  intros s. destruct (cmemh s (cindex G)) eqn:E.
  - left. now apply cmemh_index.
  - right. intros H. apply cmemh_index in H. congruence.
Qed.

(* every reachable state can still finish, or is explained *)
Theorem safe_or_explained_gen : forall s, reach step s -> can_finish step s \/ explained s = true.
Proof.
  intros s Hr. pose proof (reach_in_R s Hr) as Hs. destruct checks as (_ & _ & _ & _ & _ & He & _).
  rewrite forallb_forall in He. specialize (He s Hs). apply orb_true_iff in He.
  destruct He as [He|He]; [left; apply good_can_finish; now apply cmemh_index|now right].
Qed.

(* decidability of "can still finish" on reachable states: it is membership in G *)
Theorem can_finish_iff_G : forall s, reach step s -> (can_finish step s <-> In s G).
Proof.
  intros s Hr. split.
  - intros Hc. destruct (in_G_dec s) as [H|H]; [exact H|]. exfalso. exact (bad_cannot_finish s (reach_in_R s Hr) H Hc).
  - apply good_can_finish.
Qed.
End Generic.

(* ---------- the exploration only ever collects reachable states ---------- *)
Section ExploreSound.
Variable step : cstate -> clabel -> cstate.

Lemma reach_step : forall x l, reach step x -> reach step (step x l).
Proof.
  intros x l (s0 & ls & H0 & ->). exists s0, (ls ++ [l]). split; [exact H0|]. rewrite crun_app. reflexivity.
Qed.

Lemma explore_fold_reach : forall s labels acc,
  reach step s -> (forall x, In x (fst acc) -> reach step x) ->
  forall x, In x (fst (fold_left (fun (acc : list cstate * cset) l =>
                                    let x := step s l in
                                    if cmemh x (snd acc) then acc else (fst acc ++ [x], caddh x (snd acc))) labels acc)) ->
            reach step x.
Proof.
  intros s labels. induction labels as [|l labels IH]; intros acc Hs Hacc x Hx; cbn [fold_left] in Hx; [now apply Hacc|].
  apply (IH _ Hs) in Hx; [exact Hx|]. intros y Hy. cbv zeta in Hy.
  destruct (cmemh (step s l) (snd acc)); [now apply Hacc|]. cbn [fst] in Hy. apply in_app_or in Hy.
  destruct Hy as [Hy|[<-|[]]]; [now apply Hacc|now apply reach_step].
Qed.

Lemma cexplore_reach : forall fuel todo seen m,
  (forall x, In x todo -> reach step x) -> (forall x, In x seen -> reach step x) ->
  forall x, In x (fst (cexplore step fuel todo seen m)) -> reach step x.
Proof.
  induction fuel as [|f IH]; intros todo seen m Ht Hs x Hx; cbn [cexplore] in Hx; [cbn [fst] in Hx; now apply Hs|].
  destruct todo as [|s rest]; [cbn [fst] in Hx; now apply Hs|].
  match type of Hx with context [fold_left ?F all_clabels ([], m)] => destruct (fold_left F all_clabels ([], m)) as [new m'] eqn:E end.
  assert (forall y, In y new -> reach step y) as Hnew.
  { pose proof (explore_fold_reach s all_clabels ([], m) (Ht s (or_introl eq_refl)) (fun z (Hz : In z (fst ([], m))) => match Hz with end)) as HH.
    cbv zeta in HH. rewrite E in HH. exact HH. }
  apply (IH (rest ++ new) (seen ++ new) m'); try assumption.
  - intros y Hy. apply in_app_or in Hy. destruct Hy as [Hy|Hy]; [apply Ht; now right|now apply Hnew].
  - intros y Hy. apply in_app_or in Hy. destruct Hy as [Hy|Hy]; [now apply Hs|now apply Hnew].
Qed.
End ExploreSound.

(* ---------- the instance: the machine built from the GENERATED effect sequences ---------- *)
Definition gstep : cstate -> clabel -> cstate :=
  cstep gen_p_retry gen_p_reroute gen_p_kill_head gen_p_finish_ok gen_p_finish_err gen_pop_before_claim gen_recovery_continues gen_poll_exhausted.

Definition R : list cstate := fst (cexplore gstep (150 * 100) inits inits (cindex inits)).
Definition G : list cstate := good_of gstep R.

Lemma check_all_true : check_all_on gstep R G = true.
Proof. vm_compute. reflexivity. Qed.

Lemma R_reach : forall x, In x R -> reach gstep x.
Proof.
  apply cexplore_reach; intros x Hx; exists x, []; (split; [exact Hx|reflexivity]).
Qed.

Global Opaque R G.

Lemma each_window_strands_gen : forall w, In w windows ->
  exists s, reach gstep s /\ ~ can_finish gstep s /\ lost s = false /\ about_to_raise s = false /\ crashed_in s = Some w.
Proof.
  intros w Hw. destruct (checks gstep R G check_all_true) as (_ & _ & _ & _ & _ & _ & Hwin). rewrite forallb_forall in Hwin.
  specialize (Hwin w Hw). apply existsb_exists in Hwin. destruct Hwin as [s [Hs Hc]].
  apply andb_true_iff in Hc. destruct Hc as [Hng Hu]. unfold unexplained_by in Hu.
  apply andb_true_iff in Hu. destruct Hu as [Hu H3]. apply andb_true_iff in Hu. destruct Hu as [H1 H2].
  exists s. split; [now apply R_reach|]. split.
  - apply (bad_cannot_finish gstep R G check_all_true s Hs). intros Hin. apply cmemh_index in Hin. rewrite Hin in Hng. discriminate.
  - split; [now apply negb_true_iff|]. split; [now apply negb_true_iff|now apply ocrash_eqb_eq].
Qed.

Lemma safe_or_explained : forall s, reach gstep s -> can_finish gstep s \/ explained s = true.
Proof. exact (safe_or_explained_gen gstep R G check_all_true). Qed.

Lemma fault_free_safe : forall s, reach gstep s ->
  crashed_in s = None -> lost s = false -> about_to_raise s = false -> can_finish gstep s.
Proof.
  intros s Hr Hc Hl Ha. destruct (safe_or_explained s Hr) as [H|H]; [exact H|].
  unfold explained, in_window in H. rewrite Hc, Hl, Ha in H. discriminate.
Qed.

Lemma can_finish_decidable : forall s, reach gstep s -> can_finish gstep s \/ ~ can_finish gstep s.
Proof.
  intros s Hr. destruct (in_G_dec G s) as [H|H].
  - left. exact (good_can_finish gstep R G check_all_true s H).
  - right. exact (bad_cannot_finish gstep R G check_all_true s (reach_in_R gstep R G check_all_true s Hr) H).
Qed.

Lemma crash_outside_windows_recovers : forall s, reach gstep s -> lost s = false -> about_to_raise s = false ->
  in_window s = false -> can_finish gstep s.
Proof.
  intros s Hr Hl Ha Hw. destruct (safe_or_explained s Hr) as [H|H]; [exact H|].
  unfold explained in H. rewrite Hl, Ha, Hw in H. discriminate.
Qed.

(* Proofs/AtomicFloatProofs.v — C12, binary64 level (Flocq: Prim2B / B2R).
   - Bminus_nonneg_not_above: for ALL doubles x, m with m >= 0 (infinities, NaN, signed zeros and
     overflow included) the rounded difference x - m is not above x  (monotonicity of rounding).
     Consequence: when a slot ends at `(position+1)*size - margin`, and the next slot starts at
     `(position+1)*size`, the two windows cannot cross, whatever the rounding.
   - the sum form `start + size - margin` does cross: concrete witness. *)
From Coq Require Import ZArith Reals Bool List Lia Lra.
From Coq Require PrimFloat Uint63 FloatOps.
From Flocq Require Import Core.Core IEEE754.BinarySingleNaN IEEE754.PrimFloat.
From PV Require Import Model.AtomicArith gen.AtomicService_gen Model.AtomicSpec Proofs.AtomicServiceProofs.
Import ListNotations.

Notation bf := (binary_float FloatOps.prec FloatOps.emax).

Section B64.
Context (Hp : Prec_gt_0 FloatOps.prec) (He : Prec_lt_emax FloatOps.prec FloatOps.emax).
Open Scope R_scope.

Lemma B2R_neg_sign : forall x : bf, B2R x < 0 -> Bsign x = true.
Proof.
  intros [sx|sx| |sx mx ex Hx] H; cbn [B2R] in H; try lra.
  destruct sx; [reflexivity|]. exfalso.
  cbn [cond_Zopp] in H.
  assert (0 < F2R (Float radix2 (Z.pos mx) ex)) by (apply F2R_gt_0; reflexivity). lra.
Qed.

Lemma Bminus_nonneg_not_above : forall x m : bf,
  Bleb (B754_zero false) m = true -> Bltb x (Bminus mode_NE x m) = false.
Proof.
  intros x m Hm.
  destruct (is_finite x) eqn:Fx; [destruct (is_finite m) eqn:Fm|].
  - (* both finite *)
    rewrite Bleb_correct in Hm by auto.
    cbn [B2R] in Hm. revert Hm. case Rle_bool_spec; [intros Hm _|discriminate].
    pose proof (Bminus_correct FloatOps.prec FloatOps.emax _ _ mode_NE x m Fx Fm) as C.
    set (r := round radix2 (SpecFloat.fexp FloatOps.prec FloatOps.emax) (round_mode mode_NE) (B2R x - B2R m)) in *.
    assert (Hrx : r <= B2R x).
    { unfold r.
      rewrite <- (round_generic radix2 (SpecFloat.fexp FloatOps.prec FloatOps.emax) (round_mode mode_NE) (B2R x)) at 2
        by apply generic_format_B2R.
      apply round_le; [apply fexp_correct; reflexivity | apply valid_rnd_round_mode | lra]. }
    revert C. case Rlt_bool_spec; intros Hov C.
    + destruct C as [Cr [Cf _]]. rewrite Bltb_correct by auto. rewrite Cr. apply Rlt_bool_false. exact Hrx.
    + (* overflow: only towards -infinity *)
      destruct C as [Cs _].
      pose proof (abs_B2R_lt_emax _ _ x) as Ax. pose proof (abs_B2R_lt_emax _ _ m) as Am.
      assert (Hneg : B2R x < 0).
      { destruct (Rlt_dec (B2R x) 0) as [L|L]; [exact L|exfalso].
        assert (Hge : - B2R m <= r).
        { unfold r.
          rewrite <- (round_generic radix2 (SpecFloat.fexp FloatOps.prec FloatOps.emax) (round_mode mode_NE) (- B2R m)).
          - apply round_le; [apply fexp_correct; reflexivity | apply valid_rnd_round_mode | lra].
          - apply generic_format_opp. apply generic_format_B2R. }
        apply Rabs_def2 in Ax. apply Rabs_def2 in Am.
        assert (Rabs r < bpow radix2 FloatOps.emax) by (apply Rabs_def1; lra). lra. }
      apply B2R_neg_sign in Hneg. rewrite Hneg in Cs.
      unfold Bltb. rewrite Cs. destruct x; try discriminate; reflexivity.
  - destruct m as [sm|sm| |sm mm em Hmm]; try discriminate; destruct sm; try discriminate.
    destruct x; try discriminate; reflexivity.
  - destruct x as [sx|sx| |sx mx ex Hx]; try discriminate.
    + destruct m as [sm|sm| |sm mm em Hmm]; try discriminate; destruct sx, sm; try discriminate; reflexivity.
    + reflexivity.
Qed.
End B64.

Lemma sub_nonneg_not_above : forall S m : PrimFloat.float,
  PrimFloat.leb PrimFloat.zero m = true -> PrimFloat.ltb S (PrimFloat.sub S m) = false.
Proof.
  intros S m H. rewrite ltb_equiv, sub_equiv. apply Bminus_nonneg_not_above.
  rewrite leb_equiv in H. rewrite zero_equiv, Prim2B_B2Prim in H. exact H.
Qed.

(* ------------------------------------------------------------------ next-start form: windows never cross *)
Lemma b64_next_start_form_no_cross :
  gen_end_form = NextStartForm -> forall i n im mm,
  PrimFloat.leb PrimFloat.zero (b64_margin_secs mm) = true ->
  b64_fallback_taken i n im mm = false ->
  PrimFloat.ltb (fst (gen_calculate_time_slot F64 (i + 1) n im mm))
                (snd (gen_calculate_time_slot F64 i n im mm)) = false.
Proof.
  intros H i n im mm Hm Hf.
  pose proof gen_end_form_sound as C. rewrite H in C. cbn [end_form_claim] in C.
  rewrite (C F64 (i + 1)%Z n im mm), (C F64 i n im mm). clear C.
  cbv [slot_next_start_form b64_fallback_taken b64_margin_secs F64 T add sub mul div ofZ leb ltb fst snd] in *.
 rewrite Hf. apply sub_nonneg_not_above. exact Hm.
Qed.

(* ------------------------------------------------------------------ sum form: two runners authorised *)
Lemma b64_sum_form_overlap : gen_end_form = SumForm -> ~ at_most_one_authorised_b64.
Proof.
  intros H Hall.
  assert (W : b64_witness_both = true).
  { generalize b64_sum_form_refuted. rewrite H. cbn [is_sum_form implb]. auto. }
  unfold b64_witness_both in W. apply andb_true_iff in W. destruct W as [W1 W2].
  apply (Hall (iota 9) 5%Z 6%Z (mkf 200 0) (mkf 5 0) (mkf 0 0)).
  - vm_compute. reflexivity.
  - vm_compute. reflexivity.
  - vm_compute. reflexivity.
  - vm_compute. tauto.
  - vm_compute. tauto.
  - discriminate.
  - exact W1.
  - exact W2.
Qed.

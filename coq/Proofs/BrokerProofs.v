(* Proofs/BrokerProofs.v — lemmas behind Props/C08.v *)
From Coq Require Import List Bool Arith Lia Sorted.
Import ListNotations.
From PV Require Import Model.Broker.

(* ================= in-memory broker, sequential ================= *)

Lemma fold_push_right : forall l q, fold_left (mem_push true) l q = q ++ l.
Proof.
  induction l as [|m l IH]; intros q; cbn; [now rewrite app_nil_r|].
  rewrite IH. unfold mem_push. now rewrite <- app_assoc.
Qed.

Definition MemInv (g : mghost) : Prop := gdeliv g ++ gq g = grouted g.

Lemma mem_gstep_inv : forall g o, MemInv g -> MemInv (fst (mem_gstep true true g o)).
Proof.
  intros g o H. unfold MemInv in *. destruct o as [m|l| | |]; cbn.
  - unfold mem_push. now rewrite app_assoc, H.
  - rewrite fold_push_right. now rewrite app_assoc, H.
  - unfold mem_gstep, mem_step, mem_pop. destruct (gq g) as [|m r] eqn:E; cbn.
    + exact H.
    + rewrite <- H, <- app_assoc. reflexivity.
  - exact H.
  - reflexivity.
Qed.

Lemma mem_grun_inv : forall ops g, MemInv g -> MemInv (fst (mem_grun true true g ops)).
Proof.
  induction ops as [|o ops IH]; intros g H; cbn; [exact H|].
  destruct (mem_gstep true true g o) as [g1 out] eqn:E1.
  destruct (mem_grun true true g1 ops) as [g2 outs] eqn:E2. cbn.
  specialize (IH g1). rewrite E2 in IH. apply IH.
  pose proof (mem_gstep_inv g o H) as H1. now rewrite E1 in H1.
Qed.

(* what each operation returns, in terms of the abstract queue *)
Lemma mem_retrieve_is_head : forall g,
  snd (mem_gstep true true g BRetrieve) = BMsg (hd_error (gq g)).
Proof. intros g; unfold mem_gstep, mem_step, mem_pop. destruct (gq g); reflexivity. Qed.

Lemma mem_count_is_routed_minus_retrieved : forall g, MemInv g ->
  snd (mem_gstep true true g BCount) = BNum (length (grouted g) - length (gdeliv g)).
Proof.
  intros g H; cbn. unfold MemInv in H. rewrite <- H, app_length. f_equal. lia.
Qed.

(* ================= SQLite broker refines the in-memory one ================= *)

Definition row_le (a b : srow) : Prop := rat a <= rat b /\ rid a < rid b.

Definition SqlInv (s : sq) (t : nat) (q : list msg) : Prop :=
  StronglySorted row_le (rows s) /\
  Forall (fun r => rat r <= t /\ rid r < next s) (rows s) /\
  map rmsg (rows s) = q.

Lemma first_row_in : forall l x, first_row true l = Some x -> In x l.
Proof.
  induction l as [|r rest IH]; intros x; cbn [first_row]; [discriminate|].
  destruct (first_row true rest) as [r'|] eqn:E.
  - destruct (before true r' r); intros H; inversion H; subst; [right; now apply IH|now left].
  - intros H; inversion H; now left.
Qed.

Lemma first_row_head : forall r rest,
  StronglySorted row_le (r :: rest) -> first_row true (r :: rest) = Some r.
Proof.
  intros r rest H. inversion H as [|? ? Hs Hf]; subst. cbn [first_row].
  destruct (first_row true rest) as [r'|] eqn:E; [|reflexivity].
  apply first_row_in in E. rewrite Forall_forall in Hf. destruct (Hf _ E) as [H1 H2].
  unfold before.
  destruct (Nat.ltb_spec (rat r') (rat r)); [lia|].
  destruct (Nat.ltb_spec (rid r') (rid r)); [lia|].
  rewrite andb_false_r. reflexivity.
Qed.

Lemma delete_head : forall r rest,
  StronglySorted row_le (r :: rest) -> delete_row (rid r) (r :: rest) = rest.
Proof.
  intros r rest H. inversion H as [|? ? Hs Hf]; subst. unfold delete_row. cbn.
  rewrite Nat.eqb_refl. cbn.
  rewrite Forall_forall in Hf.
  clear H Hs. induction rest as [|x rest IH]; cbn; [reflexivity|].
  destruct (Nat.eqb_spec (rid x) (rid r)) as [e|ne].
  - destruct (Hf x (or_introl eq_refl)); lia.
  - cbn. f_equal. apply IH. intros y Hy. apply Hf. now right.
Qed.

Lemma sorted_snoc : forall l x,
  StronglySorted row_le l -> Forall (fun r => row_le r x) l -> StronglySorted row_le (l ++ [x]).
Proof.
  induction l as [|a l IH]; intros x Hs Hf; cbn.
  - constructor; constructor.
  - inversion Hs as [|? ? Hs' Hfa]; subst. inversion Hf as [|? ? Hax Hf']; subst.
    constructor; [apply IH; assumption|].
    apply Forall_app; split; [assumption|constructor; [assumption|constructor]].
Qed.

Lemma sql_insert_inv : forall s t t' q m, t <= t' ->
  SqlInv s t q -> SqlInv (sql_insert s t' m) t' (q ++ [m]).
Proof.
  intros s t t' q m Ht (Hs & Hb & Hm). unfold sql_insert, SqlInv; cbn. repeat split.
  - apply sorted_snoc; [assumption|].
    eapply Forall_impl; [|exact Hb]. intros r [H1 H2]; unfold row_le; cbn; lia.
  - apply Forall_app; split.
    + eapply Forall_impl; [|exact Hb]. intros r [H1 H2]; lia.
    + constructor; [cbn; lia|constructor].
  - rewrite map_app, Hm. reflexivity.
Qed.

Lemma sql_insert_many_inv : forall l s t q,
  SqlInv s t q -> SqlInv (fold_left (fun s m => sql_insert s t m) l s) t (q ++ l).
Proof.
  induction l as [|m l IH]; intros s t q H; cbn; [now rewrite app_nil_r|].
  replace (q ++ m :: l) with ((q ++ [m]) ++ l) by now rewrite <- app_assoc.
  apply IH. apply (sql_insert_inv s t t q m); [lia|assumption].
Qed.

Lemma SqlInv_weaken : forall s t t' q, t <= t' -> SqlInv s t q -> SqlInv s t' q.
Proof.
  intros s t t' q Ht (Hs & Hb & Hm). repeat split; try assumption.
  eapply Forall_impl; [|exact Hb]. intros r [H1 H2]; lia.
Qed.

(* one step: same output, invariant kept *)
Lemma sql_step_refines : forall s t t' q o, t <= t' -> SqlInv s t q ->
  snd (sql_step true s t' o) = snd (mem_step true true q o) /\
  SqlInv (fst (sql_step true s t' o)) t' (fst (mem_step true true q o)).
Proof.
  intros s t t' q o Ht H. destruct o as [m|l| | |]; cbn.
  - split; [reflexivity|]. unfold mem_push. eapply sql_insert_inv; eassumption.
  - split; [reflexivity|]. rewrite fold_push_right.
    apply sql_insert_many_inv. eapply SqlInv_weaken; eassumption.
  - destruct H as (Hs & Hb & Hm). destruct (rows s) as [|r rest] eqn:E.
    + cbn in Hm. subst q. cbn. split; [reflexivity|].
      repeat split; rewrite ?E; auto; constructor.
    + rewrite (first_row_head r rest Hs). cbn in Hm. subst q. cbn.
      rewrite Nat.eqb_refl. cbn. split; [reflexivity|].
      pose proof (delete_head r rest Hs) as Hd. unfold delete_row in Hd. cbn in Hd.
      rewrite Nat.eqb_refl in Hd. cbn in Hd. unfold delete_row. rewrite Hd.
      inversion Hs as [|? ? Hs' Hfa]; subst. inversion Hb as [|? ? Hbr Hb']; subst.
      repeat split; cbn; try assumption.
      eapply Forall_impl; [|exact Hb']. intros x [Hx1 Hx2]; lia.
  - destruct H as (Hs & Hb & Hm). split.
    + rewrite <- Hm, map_length. reflexivity.
    + eapply SqlInv_weaken; [eassumption|]. repeat split; assumption.
  - split; [reflexivity|]. repeat split; cbn; constructor.
Qed.

Lemma sql_run_refines : forall tops s t q, SqlInv s t q ->
  snd (sql_run true s t tops) = snd (mem_run true true q (map snd tops)).
Proof.
  induction tops as [|[dt o] rest IH]; intros s t q H; cbn; [reflexivity|].
  destruct (sql_step_refines s t (t + dt) q o ltac:(lia) H) as [Ho Hi].
  destruct (sql_step true s (t + dt) o) as [s1 out] eqn:E1.
  destruct (mem_step true true q o) as [q1 out'] eqn:E2. cbn in *.
  specialize (IH s1 (t + dt) q1 Hi).
  destruct (sql_run true s1 (t + dt) rest) as [s2 outs].
  destruct (mem_run true true q1 (map snd rest)) as [q2 outs']. cbn in *. congruence.
Qed.

Lemma SqlInv_init : SqlInv sq0 0 [].
Proof. repeat split; constructor. Qed.

(* ================= concurrent retrievers and routers (atomic retrieve) ================= *)

Definition ConcInv (w : cworld) : Prop :=
  SqlInv (cq w) (cclock w) (map rmsg (rows (cq w))) /\
  pending w = [] /\
  map snd (delivered w) ++ map rmsg (rows (cq w)) = routed w.

Lemma conc_step_inv : forall w c, ConcInv w -> ConcInv (conc_step true true w c).
Proof.
  intros w c (Hs & Hp & Hd). destruct c as [a m|a|a|dt]; cbn [conc_step].
  - unfold ConcInv; cbn [cq cclock pending delivered routed]. split; [|split].
    + pose proof (sql_insert_inv (cq w) (cclock w) (cclock w) _ m (le_n _) Hs) as H.
      destruct H as (H1 & H2 & H3). repeat split; assumption.
    + assumption.
    + unfold sql_insert; cbn [rows]. rewrite map_app. cbn [map]. rewrite app_assoc, Hd. reflexivity.
  - destruct Hs as (Hs1 & Hs2 & Hs3). destruct (rows (cq w)) as [|r rest] eqn:E.
    + cbn [first_row]. unfold ConcInv, SqlInv. rewrite E. repeat split; auto.
    + rewrite (first_row_head r rest Hs1).
      rewrite (delete_head r rest Hs1).
      inversion Hs1 as [|? ? Hs' Hfa]; subst. inversion Hs2 as [|? ? Hbr Hb']; subst.
      unfold ConcInv, SqlInv; cbn [cq cclock pending delivered routed rows next].
      split; [split; [|split]|split].
      * assumption.
      * eapply Forall_impl; [|exact Hb']. intros x [Hx1 Hx2]; lia.
      * reflexivity.
      * assumption.
      * rewrite map_app. cbn [map snd]. rewrite <- app_assoc. cbn [app].
        rewrite <- Hd. reflexivity.
  - rewrite Hp. cbn [take_pending]. unfold ConcInv. repeat split; try assumption; apply Hs.
  - unfold ConcInv; cbn [cq cclock pending delivered routed]. split; [|split]; try assumption.
    eapply SqlInv_weaken; [|exact Hs]. lia.
Qed.

Lemma conc_run_inv : forall l w, ConcInv w -> ConcInv (conc_run true true w l).
Proof.
  induction l as [|c l IH]; intros w H; cbn; [exact H|]. apply IH. now apply conc_step_inv.
Qed.

Lemma ConcInv_init : ConcInv cworld0.
Proof. repeat split; cbn; constructor. Qed.

(* ================= in-memory retrieve at line granularity ================= *)

Definition MConcInv (w : mworld) : Prop :=
  mraised w = 0 /\ map snd (mdeliv w) ++ mq w = mrouted w.

Lemma mem_conc_step_inv : forall w s, MConcInv w -> MConcInv (mem_conc_step true w s).
Proof.
  intros w s [Hr Hd]. destruct s as [m|a|a]; cbn.
  - split; cbn; [assumption|]. now rewrite app_assoc, Hd.
  - destruct (mq w) as [|m r] eqn:E; split; cbn; try assumption. now rewrite <- Hd, E.
  - destruct (existsb (Nat.eqb a) (checked w)); [|split; assumption].
    destruct (mq w) as [|m r] eqn:E; split; cbn; try assumption.
    rewrite map_app. cbn. rewrite <- app_assoc. cbn. now rewrite <- Hd.
Qed.

Lemma mem_conc_run_inv : forall l w, MConcInv w -> MConcInv (mem_conc_run true w l).
Proof.
  induction l as [|s l IH]; intros w H; cbn; [exact H|]. apply IH. now apply mem_conc_step_inv.
Qed.

(* ================= what goes wrong without the mechanisms (witnesses) ================= *)

Lemma split_retrieve_delivers_twice :
  exists steps, let w := conc_run true false cworld0 steps in
                map snd (delivered w) ++ map rmsg (rows (cq w)) <> routed w.
Proof.
  exists [CRoute 0 7; CRetrieve 1; CRetrieve 2; CFinish 1; CFinish 2]. vm_compute. discriminate.
Qed.

Lemma unguarded_pop_raises :
  exists steps, mraised (mem_conc_run false mworld0 steps) <> 0.
Proof. exists [MRoute 7; MCheck 1; MCheck 2; MPop 1; MPop 2]. vm_compute. discriminate. Qed.

Lemma lifo_is_not_fifo :
  snd (mem_run true false [] [BRoute 1; BRoute 2; BRetrieve]) <> snd (mem_run true true [] [BRoute 1; BRoute 2; BRetrieve]).
Proof. vm_compute. discriminate. Qed.

Lemma desc_order_is_not_fifo :
  snd (sql_run false sq0 0 [(1, BRoute 1); (1, BRoute 2); (1, BRetrieve)])
  <> snd (mem_run true true [] [BRoute 1; BRoute 2; BRetrieve]).
Proof. vm_compute. discriminate. Qed.

(* Proofs/RecoveryProofs.v — lemmas behind Props/C04.v *)
From Coq Require Import List Bool Arith ZArith Lia.
Import ListNotations.
From PV Require Import Model.Status Model.Recovery.
Open Scope Z_scope.

Lemma status_eqb_eq : forall a b, status_eqb a b = true <-> a = b.
Proof. intros a b; unfold status_eqb; destruct (status_eq_dec a b); split; congruence. Qed.

(* ================= scans ================= *)

Lemma pending_scan_exact_l : forall now limit s i,
  In i (pending_scan true now limit s) <->
  exists r, In (i, r) s /\ rst r = PENDING /\ rts r <= now - limit.
Proof.
  intros now limit s i. unfold pending_scan. rewrite in_map_iff. split.
  - intros [[j r] [Hj Hin]]. cbn in Hj; subst j. apply filter_In in Hin. destruct Hin as [Hin Hp].
    unfold pending_sel in Hp. cbn in Hp. apply andb_true_iff in Hp. destruct Hp as [H1 H2].
    exists r. repeat split; [assumption|now apply status_eqb_eq|now apply Z.leb_le].
  - intros [r (Hin & Hs & Ht)]. exists (i, r). split; [reflexivity|].
    apply filter_In. split; [assumption|]. unfold pending_sel. cbn.
    apply andb_true_iff. split; [now apply status_eqb_eq|now apply Z.leb_le].
Qed.

Lemma active_set_spec : forall cutoff h o,
  existsb (Nat.eqb o) (active_set true cutoff h) = true <-> exists t, In (o, t) h /\ cutoff <= t.
Proof.
  intros cutoff h o. rewrite existsb_exists. unfold active_set. split.
  - intros [x [Hin He]]. apply Nat.eqb_eq in He; subst x.
    apply in_map_iff in Hin. destruct Hin as [[r t] [Hr Hin]]. cbn in Hr; subst r.
    apply filter_In in Hin. destruct Hin as [Hin Hf]. exists t. split; [assumption|].
    unfold hb_fresh, cmp_le in Hf. cbn in Hf. now apply Z.leb_le.
  - intros [t [Hin Ht]]. exists o. split; [|apply Nat.eqb_refl].
    apply in_map_iff. exists (o, t). split; [reflexivity|]. apply filter_In. split; [assumption|].
    unfold hb_fresh, cmp_le. cbn. now apply Z.leb_le.
Qed.

Lemma running_scan_exact_l : forall now timeout h s i,
  In i (mem_running_scan true now timeout h s) <->
  exists r o, In (i, r) s /\ rst r = RUNNING /\ rown r = Some o /\
              ~ (exists t, In (o, t) h /\ now - timeout <= t).
Proof.
  intros now timeout h s i. unfold mem_running_scan. rewrite in_map_iff. split.
  - intros [[j r] [Hj Hin]]. cbn in Hj; subst j. apply filter_In in Hin. destruct Hin as [Hin Hp].
    unfold mem_running_sel in Hp. cbn in Hp. apply andb_true_iff in Hp. destruct Hp as [H1 H2].
    destruct (rown r) as [o|] eqn:Eo; [|discriminate].
    exists r, o. repeat split; [assumption|now apply status_eqb_eq|assumption|].
    intros Hex. apply active_set_spec in Hex. rewrite Hex in H2. discriminate.
  - intros [r [o (Hin & Hs & Ho & Hn)]]. exists (i, r). split; [reflexivity|].
    apply filter_In. split; [assumption|]. unfold mem_running_sel. cbn. rewrite Ho.
    apply andb_true_iff. split; [now apply status_eqb_eq|].
    destruct (existsb (Nat.eqb o) (active_set true (now - timeout) h)) eqn:E; [|reflexivity].
    apply active_set_spec in E. contradiction.
Qed.

(* index-based scan = relational scan when runner_id is a key of the heartbeat table *)
Lemma hb_lookup_in : forall h o t, NoDup (map fst h) -> In (o, t) h -> hb_lookup o h = Some t.
Proof.
  induction h as [|[r u] rest IH]; intros o t Hnd Hin; [contradiction|].
  cbn in *. inversion Hnd as [|? ? Hnotin Hnd']; subst.
  destruct Hin as [He|Hin].
  - inversion He; subst. now rewrite Nat.eqb_refl.
  - destruct (Nat.eqb_spec o r) as [->|ne]; [|now apply IH].
    exfalso. apply Hnotin. apply in_map_iff. exists (r, t). split; [reflexivity|assumption].
Qed.

Lemma hb_lookup_some_in : forall h o t, hb_lookup o h = Some t -> In (o, t) h.
Proof.
  induction h as [|[r u] rest IH]; intros o t H; cbn in *; [discriminate|].
  destruct (Nat.eqb o r) eqn:E.
  - apply Nat.eqb_eq in E; subst. inversion H; now left.
  - right; now apply IH.
Qed.

Lemma hb_lookup_none : forall h o, hb_lookup o h = None -> forall t, ~ In (o, t) h.
Proof.
  induction h as [|[r u] rest IH]; intros o H t Hin; cbn in *; [assumption|].
  destruct (Nat.eqb o r) eqn:E; [discriminate|].
  destruct Hin as [He|Hin]; [inversion He; subst; rewrite Nat.eqb_refl in E; discriminate|].
  eapply IH; eassumption.
Qed.

Lemma running_sel_agree : forall cutoff h r, NoDup (map fst h) ->
  mem_running_sel true cutoff h r = sql_running_sel true true cutoff h r.
Proof.
  intros cutoff h r Hnd. unfold mem_running_sel, sql_running_sel.
  destruct (status_eqb (rst r) RUNNING); [|reflexivity]. cbn.
  destruct (rown r) as [o|]; [|reflexivity].
  destruct (hb_lookup o h) as [t|] eqn:E.
  - destruct (existsb (Nat.eqb o) (active_set true cutoff h)) eqn:Ex.
    + apply active_set_spec in Ex. destruct Ex as [t' [Hin Ht]].
      rewrite (hb_lookup_in h o t' Hnd Hin) in E. inversion E; subst.
      unfold hb_fresh, cmp_le. apply Z.leb_le in Ht. now rewrite Ht.
    + unfold hb_fresh, cmp_le. destruct (cutoff <=? t) eqn:El; [|reflexivity].
      exfalso. assert (existsb (Nat.eqb o) (active_set true cutoff h) = true) as Hx.
      { apply active_set_spec. exists t. split; [now apply hb_lookup_some_in|now apply Z.leb_le]. }
      congruence.
  - destruct (existsb (Nat.eqb o) (active_set true cutoff h)) eqn:Ex; [|reflexivity].
    apply active_set_spec in Ex. destruct Ex as [t' [Hin _]].
    exfalso. eapply hb_lookup_none; eassumption.
Qed.

Lemma scans_agree : forall now timeout h s, NoDup (map fst h) ->
  mem_running_scan true now timeout h s = sql_running_scan true true now timeout h s.
Proof.
  intros now timeout h s Hnd. unfold mem_running_scan, sql_running_scan. f_equal.
  apply filter_ext. intros e. now apply running_sel_agree.
Qed.

Lemma fresh_pending_not_selected_l : forall now limit s i r,
  NoDup (map fst s) -> In (i, r) s -> now - limit < rts r ->
  ~ In i (pending_scan true now limit s).
Proof.
  intros now limit s i r Hnd Hin Hf Hsel. apply pending_scan_exact_l in Hsel.
  destruct Hsel as [r' (Hin' & _ & Ht)].
  assert (r' = r) as ->.
  { clear Ht Hf. induction s as [|[j q] rest IH]; [contradiction|]. cbn in Hnd. inversion Hnd as [|? ? Hn Hnd']; subst.
    destruct Hin as [He|Hin]; destruct Hin' as [He'|Hin']; try congruence.
    - inversion He; subst. exfalso. apply Hn. apply in_map_iff. exists (i, r'). split; auto.
    - inversion He'; subst. exfalso. apply Hn. apply in_map_iff. exists (i, r). split; auto.
    - apply IH; assumption. }
  apply Z.lt_nge in Hf. contradiction.
Qed.

Lemma fresh_runner_not_selected_l : forall now timeout h s i,
  In i (mem_running_scan true now timeout h s) ->
  forall r o, In (i, r) s -> NoDup (map fst s) -> rown r = Some o ->
  forall t, In (o, t) h -> t < now - timeout.
Proof.
  intros now timeout h s i Hsel r o Hin Hnd Ho t Ht. apply running_scan_exact_l in Hsel.
  destruct Hsel as [r' [o' (Hin' & _ & Ho' & Hn)]].
  assert (r' = r) as ->.
  { clear Hn Ho Ho'. induction s as [|[j q] rest IH]; [contradiction|]. cbn in Hnd. inversion Hnd as [|? ? Hx Hnd']; subst.
    destruct Hin as [He|Hin]; destruct Hin' as [He'|Hin']; try congruence.
    - inversion He; subst. exfalso. apply Hx. apply in_map_iff. exists (i, r'). split; auto.
    - inversion He'; subst. exfalso. apply Hx. apply in_map_iff. exists (i, r). split; auto.
    - apply IH; assumption. }
  rewrite Ho in Ho'. inversion Ho'; subst o'.
  apply Z.nle_gt. intros Hle. apply Hn. exists t. split; assumption.
Qed.

(* ================= store lemmas ================= *)

Lemma rlookup_rupdate_same : forall s i r q, rlookup i s = Some q -> rlookup i (rupdate i r s) = Some r.
Proof.
  induction s as [|[j p] rest IH]; intros i r q H; cbn in *; [discriminate|].
  destruct (Nat.eqb i j) eqn:E; cbn; rewrite E; [reflexivity|]. eapply IH; eassumption.
Qed.

Lemma rlookup_rupdate_other : forall s i j r, (j <> i)%nat -> rlookup j (rupdate i r s) = rlookup j s.
Proof.
  induction s as [|[k p] rest IH]; intros i j r Hne; cbn; [reflexivity|].
  destruct (Nat.eqb i k) eqn:E; cbn.
  - apply Nat.eqb_eq in E; subst k.
    destruct (Nat.eqb j i) eqn:E2; [apply Nat.eqb_eq in E2; contradiction|reflexivity].
  - destruct (Nat.eqb j k); [reflexivity|]. now apply IH.
Qed.

Lemma rstep_other : forall now i to rid s s1 j, rstep now i to rid s = Some s1 -> (j <> i)%nat ->
  rlookup j s1 = rlookup j s.
Proof.
  intros now i to rid s s1 j H Hne. unfold rstep in H.
  destruct (rlookup i s) as [r|]; [|discriminate].
  destruct (doc_transition _ to rid) as [s' o'|e]; [|discriminate].
  inversion H; subst. now apply rlookup_rupdate_other.
Qed.

(* entering a recovery status: succeeds from the right source status, whoever asks; clears the owner *)
Definition source_of (via : status) : status :=
  match via with PENDING_RECOVERY => PENDING | _ => RUNNING end.

Lemma rstep_recovery_ok : forall now i via me s r,
  doc_recovery via = true -> rlookup i s = Some r -> rst r = source_of via ->
  exists s1, rstep now i via me s = Some s1 /\
             rlookup i s1 = Some {| rst := via; rown := None; rts := now |}.
Proof.
  intros now i via me s r Hv Hl Hs. unfold rstep. rewrite Hl.
  assert (doc_transition (Some {| st := rst r; owner := rown r; ts := 0 |}) via me = TOk via None) as Ht.
  { rewrite Hs. destruct via; try discriminate; reflexivity. }
  rewrite Ht. eexists. split; [reflexivity|]. eapply rlookup_rupdate_same; eassumption.
Qed.

Lemma rstep_recovery_result : forall now i via me s s1,
  doc_recovery via = true -> rstep now i via me s = Some s1 ->
  rlookup i s1 = Some {| rst := via; rown := None; rts := now |}.
Proof.
  intros now i via me s s1 Hv H. unfold rstep in H.
  destruct (rlookup i s) as [r|] eqn:Hl; [|discriminate].
  destruct (doc_transition _ via me) as [s' o'|e] eqn:Ht; [|discriminate].
  inversion H; subst.
  assert (s' = via /\ o' = None) as [-> ->].
  { unfold doc_transition in Ht. cbn [st owner] in Ht.
    destruct (doc_edge (rst r) via); cbn [negb] in Ht; [|discriminate].
    rewrite Hv in Ht. inversion Ht; auto. }
  eapply rlookup_rupdate_same; eassumption.
Qed.

Lemma rstep_reroute_ok : forall now i via me s r,
  doc_recovery via = true -> rlookup i s = Some r -> rst r = via -> rown r = None ->
  exists s1, rstep now i REROUTED me s = Some s1 /\
             rlookup i s1 = Some {| rst := REROUTED; rown := None; rts := now |}.
Proof.
  intros now i via me s r Hv Hl Hs Ho. unfold rstep. rewrite Hl.
  assert (doc_transition (Some {| st := rst r; owner := rown r; ts := 0 |}) REROUTED me = TOk REROUTED None) as Ht.
  { rewrite Hs, Ho. destruct via; try discriminate; destruct me; reflexivity. }
  rewrite Ht. eexists. split; [reflexivity|]. eapply rlookup_rupdate_same; eassumption.
Qed.

(* ================= the mark phase (tolerant) ================= *)

Definition marked_ok (now : Z) (via : status) (s1 : rstore) (i : inv) : Prop :=
  rlookup i s1 = Some {| rst := via; rown := None; rts := now |}.

Lemma mark_phase_spec : forall now via me, doc_recovery via = true ->
  forall ids s s1 marked ab, NoDup ids ->
  mark_phase true now via me ids s = (s1, marked, ab) ->
  ab = false /\
  (forall j, ~ In j ids -> rlookup j s1 = rlookup j s) /\
  (forall i, In i marked -> In i ids /\ marked_ok now via s1 i) /\
  NoDup marked /\
  (forall i r, In i ids -> rlookup i s = Some r -> rst r = source_of via -> In i marked).
Proof.
  intros now via me Hv. induction ids as [|i rest IH]; intros s s1 marked ab Hnd H; cbn in H.
  - inversion H; subst. repeat split; auto; try constructor; intros; contradiction.
  - inversion Hnd as [|? ? Hnotin Hnd']; subst.
    destruct (rstep now i via me s) as [sa|] eqn:Es.
    + destruct (mark_phase true now via me rest sa) as [[s2 m2] ab2] eqn:Em.
      destruct (IH sa s2 m2 ab2 Hnd' Em) as (Hab & Hoth & Hmk & Hndm & Hsrc).
      inversion H; subst. clear H.
      split; [reflexivity|]. split; [|split; [|split]].
      * intros j Hj. rewrite Hoth by (intros X; apply Hj; now right).
        eapply rstep_other; [eassumption|]. intros ->. apply Hj. now left.
      * intros k [->|Hk].
        -- split; [now left|]. unfold marked_ok. rewrite Hoth by assumption.
           eapply rstep_recovery_result; eassumption.
        -- destruct (Hmk k Hk) as [Hin Hok]. split; [now right|assumption].
      * constructor; [|assumption]. intros Hin. destruct (Hmk i Hin) as [Hin' _]. contradiction.
      * intros k r [->|Hk] Hl Hr; [now left|]. right.
        assert (k <> i)%nat as Hne by (intros ->; contradiction).
        apply (Hsrc k r Hk); [|assumption]. erewrite rstep_other; eassumption.
    + destruct (IH s s1 marked ab Hnd' H) as (Hab & Hoth & Hmk & Hndm & Hsrc).
      split; [assumption|]. split; [|split; [|split]].
      * intros j Hj. apply Hoth. intros X; apply Hj; now right.
      * intros k Hk. destruct (Hmk k Hk) as [Hin Hok]. split; [now right|assumption].
      * assumption.
      * intros k r [->|Hk] Hl Hr; [|now apply (Hsrc k r)].
        exfalso. destruct (rstep_recovery_ok now k via me s r Hv Hl Hr) as [s' [Hs' _]]. congruence.
Qed.

(* ================= the reroute phase ================= *)

Lemma count_in_app : forall i l x, count_in i (l ++ [x]) = (count_in i l + (if Nat.eqb i x then 1 else 0))%nat.
Proof.
  intros i l x. unfold count_in. rewrite filter_app, app_length. cbn. destruct (Nat.eqb i x); reflexivity.
Qed.

Lemma reroute_phase_spec : forall now via me, doc_recovery via = true ->
  forall marked w, NoDup marked ->
  (forall i, In i marked -> marked_ok now via (rrecs w) i) ->
  let w' := reroute_phase now me marked w in
  (forall i, In i marked ->
      rlookup i (rrecs w') = Some {| rst := REROUTED; rown := None; rts := now |} /\
      count_in i (rqueue w') = S (count_in i (rqueue w))) /\
  (forall j, ~ In j marked -> rlookup j (rrecs w') = rlookup j (rrecs w) /\
                               count_in j (rqueue w') = count_in j (rqueue w)).
Proof.
  intros now via me Hv. induction marked as [|i rest IH]; intros w Hnd Hok; cbn.
  - split; intros; [contradiction|auto].
  - inversion Hnd as [|? ? Hnotin Hnd']; subst.
    destruct (rstep_reroute_ok now i via me (rrecs w) _ Hv (Hok i (or_introl eq_refl)) eq_refl eq_refl)
      as [s1 [Hs1 Hl1]].
    rewrite Hs1.
    set (w1 := {| rrecs := s1; rqueue := rqueue w ++ [i] |}).
    assert (forall k, In k rest -> marked_ok now via (rrecs w1) k) as Hok1.
    { intros k Hk. unfold marked_ok. cbn. erewrite rstep_other; [apply Hok; now right|eassumption|].
      intros ->. contradiction. }
    destruct (IH w1 Hnd' Hok1) as [Hin Hout]. split.
    + intros k [->|Hk].
      * destruct (Hout k Hnotin) as [Hr Hc]. split; [rewrite Hr; exact Hl1|].
        rewrite Hc. unfold w1. cbn [rqueue]. rewrite count_in_app, Nat.eqb_refl. lia.
      * destruct (Hin k Hk) as [Hr Hc]. split; [assumption|]. rewrite Hc. unfold w1. cbn [rqueue].
        rewrite count_in_app. destruct (Nat.eqb_spec k i) as [->|ne]; [contradiction|lia].
    + intros j Hj. destruct (Hout j (fun X => Hj (or_intror X))) as [Hr Hc]. split.
      * rewrite Hr. unfold w1. cbn [rrecs]. eapply rstep_other; [eassumption|]. intros ->. apply Hj. now left.
      * rewrite Hc. unfold w1. cbn [rqueue]. rewrite count_in_app.
        destruct (Nat.eqb_spec j i) as [->|ne]; [exfalso; apply Hj; now left|lia].
Qed.

(* ================= the whole run, tolerant ================= *)

Lemma recover_run_spec : forall now via me, doc_recovery via = true ->
  forall ids w, NoDup ids ->
  let w' := recover_run true now via me ids w in
  (* every scanned invocation that is still in the scanned status is re-queued exactly once more *)
  (forall i r, In i ids -> rlookup i (rrecs w) = Some r -> rst r = source_of via ->
      rlookup i (rrecs w') = Some {| rst := REROUTED; rown := None; rts := now |} /\
      count_in i (rqueue w') = S (count_in i (rqueue w))) /\
  (* nothing outside the scanned ids is touched *)
  (forall j, ~ In j ids -> rlookup j (rrecs w') = rlookup j (rrecs w) /\
                            count_in j (rqueue w') = count_in j (rqueue w)).
Proof.
  intros now via me Hv ids w Hnd. unfold recover_run.
  destruct (mark_phase true now via me ids (rrecs w)) as [[s1 marked] ab] eqn:Em.
  destruct (mark_phase_spec now via me Hv ids (rrecs w) s1 marked ab Hnd Em)
    as (-> & Hoth & Hmk & Hndm & Hsrc).
  cbn.
  assert (forall i, In i marked -> marked_ok now via (rrecs {| rrecs := s1; rqueue := rqueue w |}) i) as Hok.
  { intros i Hi. apply (Hmk i Hi). }
  destruct (reroute_phase_spec now via me Hv marked _ Hndm Hok) as [Hin Hout]. split.
  - intros i r Hi Hl Hr. apply Hin. eapply Hsrc; eassumption.
  - intros j Hj. assert (~ In j marked) as Hjm by (intros X; apply Hj; apply (Hmk j X)).
    destruct (Hout j Hjm) as [Hr Hc]. split; [rewrite Hr; cbn; now apply Hoth|exact Hc].
Qed.

(* ================= without tolerance: one lost race strands the others ================= *)
Lemma abort_strands :
  exists ids w, NoDup ids /\
    let w' := recover_run false 100 PENDING_RECOVERY (Some 9%nat) ids w in
    exists i r, In i ids /\ rlookup i (rrecs w) = Some r /\ rst r = PENDING /\
                rlookup i (rrecs w') = Some {| rst := PENDING_RECOVERY; rown := None; rts := 100 |} /\
                count_in i (rqueue w') = 0%nat.
Proof.
  exists [1%nat; 2%nat],
         {| rrecs := [(1%nat, {| rst := PENDING; rown := Some 5%nat; rts := 0 |});
                      (2%nat, {| rst := RUNNING; rown := Some 6%nat; rts := 50 |})];
            rqueue := [] |}.
  split; [repeat constructor; cbn; intuition discriminate|].
  exists 1%nat, {| rst := PENDING; rown := Some 5%nat; rts := 0 |}. vm_compute. intuition.
Qed.

(* the parent reports on every loop iteration: a live child's heartbeat is never older than one loop period, so any
   death time-out longer than the loop period never takes a live child's work — whatever the gate interval *)
Lemma live_child_fresh_l : forall loop_period gate_interval timeout : Z,
  (loop_period < timeout)%Z -> (child_hb_max_age true loop_period gate_interval < timeout)%Z.
Proof. intros lp g t H. exact H. Qed.
Lemma gated_report_stale : exists loop_period gate_interval timeout : Z,
  (loop_period < timeout)%Z /\ ~ (child_hb_max_age false loop_period gate_interval < timeout)%Z.
Proof. exists 1%Z, 30%Z, 12%Z. split; [reflexivity|]. vm_compute. intros H. discriminate H. Qed.

(* Proofs/BlockingProofs.v — lemmas behind Props/C09.v (part 1: the wait graph) *)
From Coq Require Import List Bool Arith Lia.
Import ListNotations.
From PV Require Import Model.Blocking.

(* ---------- basic facts about the set operations ---------- *)
Lemma edge_eqb_eq : forall a b, edge_eqb a b = true <-> a = b.
Proof.
  intros [a1 a2] [b1 b2]; unfold edge_eqb; cbn. rewrite andb_true_iff, !Nat.eqb_eq.
  split; [intros [-> ->]; reflexivity|intros H; inversion H; auto].
Qed.

Lemma mem_edge_in : forall e l, mem_edge e l = true <-> In e l.
Proof.
  intros e l. unfold mem_edge. rewrite existsb_exists. split.
  - intros [x [Hx He]]. apply edge_eqb_eq in He. now subst.
  - intros H. exists e. split; [assumption|now apply edge_eqb_eq].
Qed.

Lemma in_add_edge : forall e e' l, In e (add_edge e' l) <-> In e l \/ e = e'.
Proof.
  intros e e' l. unfold add_edge. destruct (mem_edge e' l) eqn:E.
  - apply mem_edge_in in E. split; [auto|intros [H|H]; [auto|now subst]].
  - rewrite in_app_iff. cbn. split; [intros [H|[H|[]]]; auto|intros [H|H]; auto].
Qed.

Lemma mem_inv_in : forall x l, mem_inv x l = true <-> In x l.
Proof.
  intros x l. unfold mem_inv. rewrite existsb_exists. split.
  - intros [y [Hy He]]. apply Nat.eqb_eq in He. now subst.
  - intros H. exists x. split; [assumption|apply Nat.eqb_refl].
Qed.

Lemma in_add_inv : forall x y l, In x (add_inv y l) <-> In x l \/ x = y.
Proof.
  intros x y l. unfold add_inv. destruct (mem_inv y l) eqn:E.
  - apply mem_inv_in in E. split; [auto|intros [H|H]; [auto|now subst]].
  - rewrite in_app_iff. cbn. split; [intros [H|[H|[]]]; auto|intros [H|H]; auto].
Qed.

Lemma in_del_inv : forall x y l, In x (del_inv y l) <-> In x l /\ x <> y.
Proof.
  intros x y l. unfold del_inv. rewrite filter_In. rewrite negb_true_iff, Nat.eqb_neq. tauto.
Qed.

Lemma has_out_spec : forall E x, has_out E x = true <-> exists y, In (x, y) E.
Proof.
  intros E x. unfold has_out. rewrite existsb_exists. split.
  - intros [[a b] [Hin He]]. cbn in He. apply Nat.eqb_eq in He. subst. eauto.
  - intros [y Hy]. exists (x, y). split; [assumption|cbn; apply Nat.eqb_refl].
Qed.

Lemma has_in_spec : forall E x, has_in E x = true <-> exists w, In (w, x) E.
Proof.
  intros E x. unfold has_in. rewrite existsb_exists. split.
  - intros [[a b] [Hin He]]. cbn in He. apply Nat.eqb_eq in He. subst. eauto.
  - intros [w Hw]. exists (w, x). split; [assumption|cbn; apply Nat.eqb_refl].
Qed.

(* the ready set is "waited on and not waiting" *)
Definition ReadyOK (ew eb : list edge) (r : list inv) (except : option inv) : Prop :=
  forall y, except <> Some y -> (In y r <-> (has_in eb y = true /\ has_out ew y = false)).

Lemma bool_false_iff : forall b, b = false <-> ~ b = true.
Proof. intros []; split; intros H; try congruence; try (exfalso; apply H; reflexivity); discriminate. Qed.

(* ---------- waiting_for_results ---------- *)
Lemma wait_one_ready : forall w m x, x <> w ->
  (forall a b, In (a, b) (Ew m) -> In (a, b) (Eb m)) ->
  ReadyOK (Ew m) (Eb m) (ready m) (Some w) ->
  ReadyOK (Ew (mem_wait_one w m x)) (Eb (mem_wait_one w m x)) (ready (mem_wait_one w m x)) (Some w).
Proof.
  intros w m x Hxw Hsub H y Hy. assert (y <> w) as Hyw by congruence.
  unfold mem_wait_one; cbn [Ew Eb ready].
  assert (forall z, z <> w -> has_out (add_edge (w, x) (Ew m)) z = has_out (Ew m) z) as Hout.
  { intros z Hz. destruct (has_out (Ew m) z) eqn:E.
    - apply has_out_spec in E. destruct E as [q Hq]. apply has_out_spec. exists q. apply in_add_edge. now left.
    - apply bool_false_iff. intros Hc. apply has_out_spec in Hc. destruct Hc as [q Hq].
      apply in_add_edge in Hq. destruct Hq as [Hq|Hq]; [|inversion Hq; congruence].
      apply bool_false_iff in E. apply E. apply has_out_spec. eauto. }
  assert (forall z, has_in (add_edge (w, x) (Eb m)) z = true <-> (has_in (Eb m) z = true \/ z = x)) as Hin.
  { intros z. rewrite !has_in_spec. split.
    - intros [q Hq]. apply in_add_edge in Hq. destruct Hq as [Hq|Hq]; [left; eauto|inversion Hq; auto].
    - intros [[q Hq]| ->]; [exists q; apply in_add_edge; now left|exists w; apply in_add_edge; now right]. }
  rewrite (Hout y Hyw), Hin.
  destruct (has_out (add_edge (w, x) (Ew m)) x) eqn:Ex.
  - (* x is itself waiting: not added *)
    rewrite (Hout x Hxw) in Ex. rewrite (H y Hy). split; [tauto|].
    intros [[Hi| ->] Ho]; [tauto|congruence].
  - rewrite (Hout x Hxw) in Ex. rewrite in_add_inv, (H y Hy). split.
    + intros [[Hi Ho]| ->]; [tauto|split; [now right|assumption]].
    + intros [[Hi| ->] Ho]; [left; tauto|now right].
Qed.

Lemma wait_one_sub : forall w m x,
  (forall a b, In (a, b) (Ew m) -> In (a, b) (Eb m)) ->
  (forall a b, In (a, b) (Ew (mem_wait_one w m x)) -> In (a, b) (Eb (mem_wait_one w m x))).
Proof.
  intros w m x H a b. unfold mem_wait_one; cbn [Ew Eb]. rewrite !in_add_edge. intros [Hi|He]; auto.
Qed.

Lemma wait_fold_ready : forall w xs m, ~ In w xs ->
  (forall a b, In (a, b) (Ew m) -> In (a, b) (Eb m)) ->
  ReadyOK (Ew m) (Eb m) (ready m) (Some w) ->
  let m' := fold_left (mem_wait_one w) xs m in
  ReadyOK (Ew m') (Eb m') (ready m') (Some w) /\ (forall a b, In (a, b) (Ew m') -> In (a, b) (Eb m')).
Proof.
  intros w xs. induction xs as [|x xs IH]; intros m Hn Hs H; cbn; [split; assumption|].
  apply IH.
  - intros Hc. apply Hn. now right.
  - now apply wait_one_sub.
  - apply wait_one_ready; auto. intros ->. apply Hn. now left.
Qed.

(* edges after the loop: both structures got exactly the edges (w, x), x in xs *)
Lemma wait_fold_edges : forall w xs m,
  let m' := fold_left (mem_wait_one w) xs m in
  (forall e, In e (Ew m') <-> In e (Ew m) \/ exists x, In x xs /\ e = (w, x)) /\
  Eb m' = fold_left (fun E x => add_edge (w, x) E) xs (Eb m).
Proof.
  intros w xs. induction xs as [|x xs IH]; intros m; cbn.
  - split; [intros e; split; [auto|intros [H|[x [[] _]]]; auto]|reflexivity].
  - destruct (IH (mem_wait_one w m x)) as [H1 H2]. split; [|exact H2].
    intros e. rewrite H1. unfold mem_wait_one at 1; cbn [Ew]. rewrite in_add_edge. split.
    + intros [[H| -> ]|[y [Hy ->]]]; [now left|right; exists x; split; [now left|reflexivity]|right; exists y; split; [now right|reflexivity]].
    + intros [H|[y [[->|Hy] ->]]]; [left; now left|left; now right|right; exists y; auto].
Qed.

(* ---------- release_waiters ---------- *)
Lemma release_one_spec : forall x eb ew r wt,
  ReadyOK ew eb r None ->
  let '(ew', r') := mem_release_one x eb (ew, r) wt in
  ReadyOK ew' eb r' None /\
  (forall e, In e ew' <-> In e ew /\ e <> (wt, x)).
Proof.
  intros x eb ew r wt H. unfold mem_release_one.
  set (ew' := filter (fun e => negb (edge_eqb e (wt, x))) ew).
  assert (forall e, In e ew' <-> In e ew /\ e <> (wt, x)) as Hew.
  { intros e. unfold ew'. rewrite filter_In, negb_true_iff. split; intros [H1 H2]; split; auto.
    - intros ->. assert (edge_eqb (wt, x) (wt, x) = true) by now apply edge_eqb_eq. congruence.
    - apply bool_false_iff. intros Hc. apply edge_eqb_eq in Hc. contradiction. }
  assert (forall y, y <> wt -> has_out ew' y = has_out ew y) as Hout.
  { intros y Hy. destruct (has_out ew y) eqn:E.
    - apply has_out_spec in E. destruct E as [q Hq]. apply has_out_spec. exists q. apply Hew. split; [assumption|].
      intros Hc; inversion Hc; congruence.
    - apply bool_false_iff. intros Hc. apply has_out_spec in Hc. destruct Hc as [q Hq]. apply Hew in Hq.
      apply bool_false_iff in E. apply E. apply has_out_spec. exists q. tauto. }
  assert (has_out ew' wt = true -> has_out ew wt = true) as Hmono.
  { intros Hc. apply has_out_spec in Hc. destruct Hc as [q Hq]. apply Hew in Hq. apply has_out_spec. exists q. tauto. }
  destruct (has_out ew' wt) eqn:Eo.
  - split; [|exact Hew]. intros y _. destruct (Nat.eq_dec y wt) as [->|Hy].
    + rewrite (H wt) by discriminate. rewrite Eo, (Hmono eq_refl). tauto.
    + rewrite (Hout y Hy). apply H. discriminate.
  - split; [|exact Hew]. intros y _. destruct (Nat.eq_dec y wt) as [->|Hy].
    + rewrite Eo. destruct (has_in eb wt) eqn:Ei.
      * rewrite in_add_inv. split; [auto|intros _; now right].
      * rewrite (H wt) by discriminate. rewrite Ei. split; intros [H1 H2]; congruence.
    + rewrite (Hout y Hy). destruct (has_in eb wt).
      * rewrite in_add_inv. rewrite (H y) by discriminate. split; [intros [H1|H1]; [assumption|congruence]|auto].
      * apply H. discriminate.
Qed.

Lemma release_fold_spec : forall x eb ws ew r,
  ReadyOK ew eb r None ->
  let '(ew', r') := fold_left (mem_release_one x eb) ws (ew, r) in
  ReadyOK ew' eb r' None /\
  (forall e, In e ew' <-> In e ew /\ ~ (exists wt, In wt ws /\ e = (wt, x))).
Proof.
  intros x eb ws. induction ws as [|wt ws IH]; intros ew r H; cbn [fold_left].
  - split; [assumption|]. intros e. split; [intros He; split; [assumption|intros [wt [[] _]]]|tauto].
  - pose proof (release_one_spec x eb ew r wt H) as H1.
    destruct (mem_release_one x eb (ew, r) wt) as [ew1 r1]. destruct H1 as [Hr1 He1].
    specialize (IH ew1 r1 Hr1). destruct (fold_left (mem_release_one x eb) ws (ew1, r1)) as [ew2 r2].
    destruct IH as [Hr2 He2]. split; [assumption|].
    intros e. rewrite He2, He1. split.
    + intros [[Hin Hne] Hn]. split; [assumption|]. intros [w' [[->|Hw] ->]]; [congruence|apply Hn; eauto].
    + intros [Hin Hn]. split; [split; [assumption|]|].
      * intros ->. apply Hn. exists wt. split; [now left|reflexivity].
      * intros [w' [Hw ->]]. apply Hn. exists w'. split; [now right|reflexivity].
Qed.

Lemma fold_add_edges : forall w xs E e,
  In e (fold_left (fun E x => add_edge (w, x) E) xs E) -> In e E \/ exists x, In x xs /\ e = (w, x).
Proof.
  intros w xs. induction xs as [|x xs IH]; intros E e H; cbn in H; [now left|].
  apply IH in H. destruct H as [H|[y [Hy H]]].
  - apply in_add_edge in H. destruct H as [H|H]; [now left|right; exists x; split; [now left|assumption]].
  - right. exists y. split; [now right|assumption].
Qed.

(* ---------- the whole machine ---------- *)
Record BInv (s : bstate) : Prop := {
  bi_eb : Eb (bmem s) = bref s;
  bi_sub : forall a b, In (a, b) (Ew (bmem s)) -> In (a, b) (bref s);
  bi_sup : forall a b, In (a, b) (bref s) -> In (a, b) (Ew (bmem s)) \/ In a (finished s);
  bi_ready : ReadyOK (Ew (bmem s)) (Eb (bmem s)) (ready (bmem s)) None }.

Definition wf_bop (o : bop) : Prop :=
  match o with
  | BWait w xs => xs <> [] /\ ~ In w xs       (* BaseOrchestrator.waiting_for_results drops empty lists *)
  | BFinish _ => True
  end.

Lemma ready_drop_except : forall ew eb r w, ReadyOK ew eb r None -> ReadyOK ew eb r (Some w).
Proof. intros ew eb r w H y _. apply H. discriminate. Qed.

Lemma bstep_inv : forall s o, wf_bop o -> BInv s -> BInv (bstep s o).
Proof.
  intros s o Hwf [H1 H2 H3 H4]. destruct o as [w xs|x]; cbn [bstep].
  - destruct Hwf as [Hne Hnw].
    pose proof (wait_fold_ready w xs (bmem s) Hnw (fun a b Hab => eq_ind_r (fun l => In (a, b) l) (H2 a b Hab) H1)
                  (ready_drop_except _ _ _ w H4)) as [Hr Hs].
    pose proof (wait_fold_edges w xs (bmem s)) as [He Hb].
    remember (fold_left (mem_wait_one w) xs (bmem s)) as m' eqn:Em'.
    constructor; cbn [bmem bref finished mem_wait Ew Eb ready]; rewrite <- ?Em'.
    + rewrite Hb, H1. reflexivity.
    + intros a b Hab. apply Hs in Hab. rewrite Hb, H1 in Hab. exact Hab.
    + intros a b Hab. unfold ref_wait in Hab. rewrite <- H1, <- Hb in Hab.
      (* every edge of Eb m' is an old edge of E or a new (w, x) *)
      assert (In (a, b) (Eb (bmem s)) \/ exists x, In x xs /\ (a, b) = (w, x)) as Hc
        by (apply fold_add_edges; rewrite <- Hb; exact Hab).
      destruct Hc as [Hc|[x [Hx Hc]]].
      * rewrite H1 in Hc. destruct (H3 a b Hc) as [Hi|Hf]; [|now right]. left. apply He. now left.
      * left. apply He. right. eauto.
    + intros y _. rewrite in_del_inv. destruct (Nat.eq_dec y w) as [->|Hy].
      * split; [intros [_ Hc]; congruence|]. intros [_ Ho]. exfalso.
        destruct xs as [|x0 xs']; [congruence|].
        assert (has_out (Ew m') w = true) as Hx.
        { apply has_out_spec. exists x0. apply He. right. exists x0. split; [now left|reflexivity]. }
        congruence.
      * rewrite (Hr y) by congruence. tauto.
  - (* finish x *)
    unfold mem_release.
    set (ws := map fst (filter (fun e => Nat.eqb (snd e) x) (Eb (bmem s)))).
    pose proof (release_fold_spec x (Eb (bmem s)) ws (Ew (bmem s)) (ready (bmem s)) H4) as Hf.
    destruct (fold_left (mem_release_one x (Eb (bmem s))) ws (Ew (bmem s), ready (bmem s))) as [ew r].
    destruct Hf as [Hr He].
    assert (forall a, In a ws <-> In (a, x) (Eb (bmem s))) as Hws.
    { intros a. unfold ws. rewrite in_map_iff. split.
      - intros [[p q] [Hp Hin]]. cbn in Hp; subst p. apply filter_In in Hin. destruct Hin as [Hin Hq].
        cbn in Hq. apply Nat.eqb_eq in Hq. now subst.
      - intros Hin. exists (a, x). split; [reflexivity|]. apply filter_In. split; [assumption|cbn; apply Nat.eqb_refl]. }
    constructor; cbn [bmem bref finished Ew Eb ready].
    + rewrite H1. reflexivity.
    + intros a b Hab. apply filter_In in Hab. destruct Hab as [Hab Hna]. cbn in Hna.
      apply He in Hab. destruct Hab as [Hab Hn]. unfold ref_release. apply filter_In. split; [now apply H2|].
      cbn. apply negb_true_iff, Nat.eqb_neq. intros ->. apply Hn. exists a. split; [|reflexivity].
      apply Hws. rewrite H1. now apply H2.
    + intros a b Hab. unfold ref_release in Hab. apply filter_In in Hab. destruct Hab as [Hab Hnb]. cbn in Hnb.
      apply negb_true_iff, Nat.eqb_neq in Hnb.
      destruct (H3 a b Hab) as [Hi|Hfin]; [|right; now right].
      destruct (Nat.eq_dec a x) as [->|Hax]; [right; now left|]. left.
      apply filter_In. split; [|cbn; apply negb_true_iff, Nat.eqb_neq; assumption].
      apply He. split; [assumption|]. intros [wt [_ Hc]]. inversion Hc; congruence.
    + intros y _. rewrite in_del_inv.
      set (ew2 := filter (fun e => negb (Nat.eqb (fst e) x)) ew).
      set (eb2 := filter (fun e => negb (Nat.eqb (snd e) x)) (Eb (bmem s))).
      destruct (Nat.eq_dec y x) as [->|Hy].
      * split; [intros [_ Hc]; congruence|]. intros [Hi _]. exfalso.
        apply has_in_spec in Hi. destruct Hi as [q Hq]. unfold eb2 in Hq. apply filter_In in Hq.
        destruct Hq as [_ Hq]. cbn in Hq. rewrite Nat.eqb_refl in Hq. discriminate.
      * assert (has_in eb2 y = has_in (Eb (bmem s)) y) as Hin2.
        { destruct (has_in (Eb (bmem s)) y) eqn:E.
          - apply has_in_spec in E. destruct E as [q Hq]. apply has_in_spec. exists q. unfold eb2. apply filter_In.
            split; [assumption|cbn; now apply negb_true_iff, Nat.eqb_neq].
          - apply bool_false_iff. intros Hc. apply has_in_spec in Hc. destruct Hc as [q Hq]. unfold eb2 in Hq.
            apply filter_In in Hq. apply bool_false_iff in E. apply E. apply has_in_spec. exists q. tauto. }
        assert (has_out ew2 y = has_out ew y) as Hout2.
        { destruct (has_out ew y) eqn:E.
          - apply has_out_spec in E. destruct E as [q Hq]. apply has_out_spec. exists q. unfold ew2. apply filter_In.
            split; [assumption|cbn; now apply negb_true_iff, Nat.eqb_neq].
          - apply bool_false_iff. intros Hc. apply has_out_spec in Hc. destruct Hc as [q Hq]. unfold ew2 in Hq.
            apply filter_In in Hq. apply bool_false_iff in E. apply E. apply has_out_spec. exists q. tauto. }
        rewrite Hin2, Hout2. rewrite (Hr y) by discriminate. tauto.
Qed.

Lemma brun_inv : forall ops s, Forall wf_bop ops -> BInv s -> BInv (brun s ops).
Proof.
  induction ops as [|o ops IH]; intros s Hf H; cbn; [exact H|].
  inversion Hf; subst. apply IH; [assumption|]. now apply bstep_inv.
Qed.

Lemma BInv_init : BInv bstate0.
Proof.
  constructor; cbn; auto; try (intros; contradiction).
  intros y _. cbn. split; [intros []|intros [H _]; discriminate].
Qed.

(* ---------- the answers agree and are the definition ---------- *)
Lemma mem_blocking_is_definition : forall ops, Forall wf_bop ops ->
  forall runnable, (forall x, In x (finished (brun bstate0 ops)) -> runnable x = false) ->
  forall x, mem_blocking runnable (bmem (brun bstate0 ops)) x = ref_blocking runnable (bref (brun bstate0 ops)) x.
Proof.
  intros ops Hwf runnable Hfin x.
  destruct (brun_inv ops bstate0 Hwf BInv_init) as [H1 H2 H3 H4].
  set (s := brun bstate0 ops) in *.
  unfold mem_blocking, ref_blocking.
  destruct (runnable x) eqn:Er; [|now rewrite !andb_false_r]. rewrite !andb_true_r.
  assert (has_out (Ew (bmem s)) x = has_out (bref s) x) as Ho.
  { destruct (has_out (bref s) x) eqn:E.
    - apply has_out_spec in E. destruct E as [q Hq]. apply has_out_spec.
      destruct (H3 x q Hq) as [Hi|Hf]; [eauto|]. rewrite (Hfin x Hf) in Er. discriminate.
    - apply bool_false_iff. intros Hc. apply has_out_spec in Hc. destruct Hc as [q Hq].
      apply bool_false_iff in E. apply E. apply has_out_spec. exists q. now apply H2. }
  rewrite <- Ho, <- H1.
  destruct (mem_inv x (ready (bmem s))) eqn:Em.
  - apply mem_inv_in in Em. apply (H4 x) in Em; [|discriminate]. destruct Em as [Ea Eb']. now rewrite Ea, Eb'.
  - destruct (has_in (Eb (bmem s)) x) eqn:Ea; [|reflexivity]. destruct (has_out (Ew (bmem s)) x) eqn:Eo; [reflexivity|].
    exfalso. apply bool_false_iff in Em. apply Em. apply mem_inv_in. apply (H4 x); [discriminate|]. split; assumption.
Qed.

(* when an invocation finishes nothing is recorded as waiting on it any more *)
Lemma finished_has_no_waiters : forall s x,
  has_in (bref (bstep s (BFinish x))) x = false /\ has_in (Eb (bmem (bstep s (BFinish x)))) x = false.
Proof.
  intros s x. cbn [bstep bref bmem]. split; apply bool_false_iff; intros Hc; apply has_in_spec in Hc;
    destruct Hc as [q Hq].
  - unfold ref_release in Hq. apply filter_In in Hq. destruct Hq as [_ Hq]. cbn in Hq. rewrite Nat.eqb_refl in Hq. discriminate.
  - unfold mem_release in Hq.
    destruct (fold_left _ _ _) as [ew r] in Hq. cbn [Eb] in Hq.
    apply filter_In in Hq. destruct Hq as [_ Hq]. cbn in Hq. rewrite Nat.eqb_refl in Hq. discriminate.
Qed.


Lemma NoDup_firstn : forall (n : nat) (l : list inv), NoDup l -> NoDup (firstn n l).
Proof.
  induction n as [|n IH]; intros l H; cbn; [constructor|].
  destruct l as [|x l]; [constructor|]. inversion H as [|? ? Hx Hl]; subst. constructor; [|now apply IH].
  intros Hin. apply Hx. rewrite <- (firstn_skipn n l). apply in_or_app. now left.
Qed.

(* the limit: at most n answers, all of them correct, no duplicates, exactly min(n, #correct) *)
Lemma answer_spec : forall cands ok n,
  (forall x, In x (answer cands ok n) -> In x cands /\ ok x = true) /\
  length (answer cands ok n) = Nat.min n (length (filter ok cands)) /\
  (NoDup cands -> NoDup (answer cands ok n)).
Proof.
  intros cands ok n. unfold answer. split; [|split].
  - intros x Hx. apply filter_In.
    rewrite <- (firstn_skipn n (filter ok cands)). apply in_or_app. now left.
  - apply firstn_length.
  - intros Hnd. apply NoDup_firstn. now apply NoDup_filter.
Qed.

(* Proofs/AppDbProofs.v — C17: on a shared database file, no operation of an application that is
   independent of B changes anything B can observe — for every operation sequence (induction);
   the executable SHA-256 satisfies the two digest facts the naming lemmas use. *)
From Coq Require Import List NArith Bool Lia Arith.
Import ListNotations.
From PV Require Import Model.SanitizeDef gen.Sanitize_gen Model.Sanitize Model.Like Model.Sha256 Model.AppDb
  Proofs.SanitizeProofs Proofs.LikeProofs.
Open Scope N_scope.

(* ------------------------------------------------------------------ association-list facts *)
Lemma lookup_app_other : forall n m r d, n <> m -> lookup n (d ++ [(m, r)]) = lookup n d.
Proof.
  intros n m r d Hne. induction d as [|[m' r'] d IH]; cbn [app lookup].
  - rewrite (str_eqb_neq _ _ Hne). reflexivity.
  - destruct (str_eqb n m'); [reflexivity|exact IH].
Qed.

Lemma lookup_create_other : forall n m d, n <> m -> lookup n (create m d) = lookup n d.
Proof.
  intros n m d Hne. unfold create. destruct (lookup m d); [reflexivity|]. apply lookup_app_other, Hne.
Qed.

Lemma lookup_creates_other : forall n ms d, ~ In n ms ->
  lookup n (fold_left (fun acc m => create m acc) ms d) = lookup n d.
Proof.
  intros n ms. induction ms as [|m ms IH]; intros d Hn; [reflexivity|].
  cbn [fold_left]. rewrite IH by (intro; apply Hn; right; assumption).
  apply lookup_create_other. intro E. apply Hn. left. symmetry. exact E.
Qed.

Lemma lookup_insert_other : forall n m d, n <> m -> lookup n (insert m d) = lookup n d.
Proof.
  intros n m d Hne. induction d as [|[m' r'] d IH]; [reflexivity|]. cbn [insert].
  destruct (str_eqb m m') eqn:E; cbn [lookup].
  - apply str_eqb_eq in E. subst m'. rewrite (str_eqb_neq _ _ Hne). reflexivity.
  - destruct (str_eqb n m'); [reflexivity|exact IH].
Qed.

Lemma lookup_purge_where : forall sel n d, sel n = false -> lookup n (purge_where sel d) = lookup n d.
Proof.
  intros sel n d Hs. induction d as [|[m r] d IH]; [reflexivity|]. cbn [purge_where map fst].
  destruct (str_eqb n m) eqn:E.
  - apply str_eqb_eq in E. subst m. rewrite Hs. cbn [lookup]. rewrite (proj2 (str_eqb_eq n n) eq_refl). reflexivity.
  - destruct (sel m); cbn [lookup fst]; rewrite E; exact IH.
Qed.

Section WithDigest.
  Variable H : str -> str.
  Hypothesis H_hex : forall id, forallb lower_hex (H id) = true.
  Hypothesis H_len : forall id, length (H id) = 64%nat.
  Variable k : purge_kind.

  (* an operation that names real components / tables *)
  Definition wf_op (o : op) : Prop :=
    match o with
    | OInit _ => True
    | OWrite _ c t => In (c, t) vocab_pairs
    | OPurge _ c => In c components
    end.

  (* purging any component of a reaches no table of b *)
  Definition purge_misses (a b : str) : Prop :=
    forall c cb tb, In c components -> In (cb, tb) vocab_pairs ->
      purge_selects k (table_prefix H a c) (table_name H b cb tb) = false.

  Definition independent (a b : str) : Prop := prefix H a <> prefix H b /\ purge_misses a b.

  Lemma step_isolated : forall a_op b d,
    wf_op a_op -> independent (op_app a_op) b -> view H b (step H k d a_op) = view H b d.
  Proof.
    intros o b d Hwf [Hne Hmiss]. unfold view. apply map_ext_in. intros n Hn.
    destruct o as [a|a c t|a c]; cbn [step op_app] in *.
    - apply lookup_creates_other. intro Ha. exact (tables_disjoint H a b n Hne Ha Hn).
    - apply lookup_insert_other. intro E. subst n.
      apply (tables_disjoint H a b (table_name H a c t) Hne); [|exact Hn].
      unfold all_tables. apply in_map_iff. exists (c, t). split; [reflexivity|exact Hwf].
    - apply lookup_purge_where. unfold all_tables in Hn. apply in_map_iff in Hn as [[cb tb] [E Hin]].
      cbn [fst snd] in E. subst n. apply Hmiss; assumption.
  Qed.

  Theorem run_isolated : forall ops b d,
    (forall o, In o ops -> wf_op o /\ independent (op_app o) b) ->
    view H b (run H k d ops) = view H b d.
  Proof.
    induction ops as [|o ops IH]; intros b d Hall; [reflexivity|].
    unfold run in *. cbn [fold_left]. rewrite IH by (intros o' Ho'; apply Hall; right; exact Ho').
    destruct (Hall o (or_introl eq_refl)) as [Hwf Hind]. apply step_isolated; assumption.
  Qed.
End WithDigest.

(* with the structural selection, "different prefixes" is all independence needs *)
Lemma structural_independent : forall H,
  (forall id, forallb lower_hex (H id) = true) -> (forall id, length (H id) = 64%nat) ->
  forall a b, prefix H a <> prefix H b -> independent H PurgeStructural a b.
Proof.
  intros H Hh Hl a b Hne. split; [exact Hne|]. intros c cb tb Hc Hin.
  destruct (purge_selects PurgeStructural (table_prefix H a c) (table_name H b cb tb)) eqn:E; [|reflexivity].
  exfalso. apply Hne. exact (structural_purge_same_prefix H a b c cb tb Hc Hin E).
Qed.

(* with the LIKE selection: same-length sanitised ids with different hash digits *)
Lemma like_independent : forall H,
  (forall id, forallb lower_hex (H id) = true) -> (forall id, length (H id) = 64%nat) ->
  forall a b, length (sanitize a) = length (sanitize b) -> hash_part H a <> hash_part H b ->
  independent H PurgeLike a b.
Proof.
  intros H Hh Hl a b L Hne. split.
  - intro E. apply Hne. exact (proj2 (prefix_inj H Hl a b E)).
  - intros c cb tb Hc Hin.
    destruct (purge_selects PurgeLike (table_prefix H a c) (table_name H b cb tb)) eqn:E; [|reflexivity].
    exfalso. apply Hne. exact (like_purge_same_length H Hh Hl a b c cb tb Hc Hin L E).
Qed.

(* ------------------------------------------------------------------ the executable SHA-256 *)
Lemma hexdigit_hex : forall x, lower_hex (hexdigit (x mod 16)) = true.
Proof.
  intro x. assert (B : x mod 16 < 16) by (apply N.mod_upper_bound; discriminate).
  generalize dependent (x mod 16). intros n B.
  unfold hexdigit, lower_hex, in_ranges, hex_ranges. cbn [existsb]. rewrite orb_false_r.
  destruct (N.ltb_spec n 10) as [Lt|Ge]; apply orb_true_iff; [left|right];
    unfold in_range; cbn [fst snd]; apply andb_true_iff; split; apply N.leb_le; lia.
Qed.

Lemma hex8_hex : forall w, forallb lower_hex (hex8 w) = true.
Proof.
  intro w. unfold hex8. apply forallb_forall. intros c Hc. apply in_map_iff in Hc as [i [E _]].
  subst c. apply hexdigit_hex.
Qed.

Lemma hex8_len : forall w, length (hex8 w) = 8%nat.
Proof. intro w. unfold hex8. rewrite map_length. reflexivity. Qed.

Lemma sha256_hex_hex : forall id, forallb lower_hex (sha256_hex id) = true.
Proof. intro id. unfold sha256_hex, sha256_hex_bytes. rewrite !forallb_app, !hex8_hex. reflexivity. Qed.

Lemma sha256_hex_len : forall id, length (sha256_hex id) = 64%nat.
Proof. intro id. unfold sha256_hex, sha256_hex_bytes. rewrite !app_length, !hex8_len. reflexivity. Qed.

(* ------------------------------------------------------------------ closed statements (digest := SHA-256) *)
Notation S256 := sha256_hex.

Definition purge_isolated_stmt (k : purge_kind) : Prop :=
  forall a b c cb tb, In c components -> In (cb, tb) vocab_pairs ->
    prefix S256 a <> prefix S256 b ->
    purge_selects k (table_prefix S256 a c) (table_name S256 b cb tb) = false.

Definition ops_isolated_stmt (k : purge_kind) : Prop :=
  forall ops b d,
    (forall o, In o ops -> wf_op o /\ prefix S256 (op_app o) <> prefix S256 b) ->
    view S256 b (run S256 k d ops) = view S256 b d.

Lemma purge_isolated_structural_pf : purge_isolated_stmt PurgeStructural.
Proof.
  intros a b c cb tb Hc Hin Hne.
  exact (proj2 (structural_independent S256 sha256_hex_hex sha256_hex_len a b Hne) c cb tb Hc Hin).
Qed.

Lemma ops_isolated_structural_pf : ops_isolated_stmt PurgeStructural.
Proof.
  intros ops b d Hall. apply run_isolated. intros o Ho. destruct (Hall o Ho) as [Hwf Hne].
  split; [exact Hwf|]. apply structural_independent; [exact sha256_hex_hex|exact sha256_hex_len|exact Hne].
Qed.

Lemma ops_isolated_like_guarded_pf : forall ops b d,
  (forall o, In o ops -> wf_op o /\ length (sanitize (op_app o)) = length (sanitize b)
                         /\ hash_part S256 (op_app o) <> hash_part S256 b) ->
  view S256 b (run S256 PurgeLike d ops) = view S256 b d.
Proof.
  intros ops b d Hall. apply run_isolated. intros o Ho. destruct (Hall o Ho) as [Hwf [L Hne]].
  split; [exact Hwf|]. apply like_independent; [exact sha256_hex_hex|exact sha256_hex_len|exact L|exact Hne].
Qed.

(* the look-alike: an id that is another application's table prefix followed by anything *)
Definition comp0 : str := hd [] components.
Definition pair0 : str * str := hd ([], []) vocab_pairs.
Definition id_x : str := [120].                                        (* "x" *)
Definition lookalike (a : str) : str := table_prefix S256 a comp0 ++ [95; 122; 122; 122].   (* ..."_zzz" *)

Lemma like_witness :
  In comp0 components /\ In pair0 vocab_pairs /\
  prefix S256 id_x <> prefix S256 (lookalike id_x) /\
  purge_selects PurgeLike (table_prefix S256 id_x comp0)
                (table_name S256 (lookalike id_x) (fst pair0) (snd pair0)) = true.
Proof.
  split; [vm_compute; left; reflexivity|]. split; [vm_compute; left; reflexivity|]. split.
  - intro E. apply (f_equal (@length N)) in E. vm_compute in E. discriminate E.
  - vm_compute. reflexivity.
Qed.

Lemma purge_like_refuted_pf : ~ purge_isolated_stmt PurgeLike.
Proof.
  intro Hiso. destruct like_witness as [Hc [Hin [Hne Hsel]]].
  destruct pair0 as [cb tb] eqn:E. cbn [fst snd] in Hsel.
  rewrite (Hiso _ _ _ cb tb Hc Hin Hne) in Hsel. discriminate Hsel.
Qed.

Lemma ops_like_refuted_pf : ~ ops_isolated_stmt PurgeLike.
Proof.
  intro Hiso. destruct like_witness as [Hc [Hin [Hne _]]].
  pose (b := lookalike id_x).
  pose (d := run S256 PurgeLike [] [OInit b; OWrite b (fst pair0) (snd pair0)]).
  specialize (Hiso [OPurge id_x comp0] b d).
  assert (Hpre : forall o, In o [OPurge id_x comp0] -> wf_op o /\ prefix S256 (op_app o) <> prefix S256 b).
  { intros o [Ho|[]]. subst o. split; [exact Hc|exact Hne]. }
  specialize (Hiso Hpre). vm_compute in Hiso. discriminate Hiso.
Qed.

Lemma this_tree_pf : forall k,
  match k with
  | PurgeStructural => purge_isolated_stmt k /\ ops_isolated_stmt k
  | PurgeLike => ~ purge_isolated_stmt k /\ ~ ops_isolated_stmt k
  end.
Proof.
  destruct k; split.
  - exact purge_like_refuted_pf.
  - exact ops_like_refuted_pf.
  - exact purge_isolated_structural_pf.
  - exact ops_isolated_structural_pf.
Qed.

(* two ids that differ only in punctuation and share the 8 hex digits (found by a birthday search
   over 2^18 punctuation variants of "svc" + 9 characters of "-.:+") *)
Definition col_a : str := [115; 118; 99; 45; 46; 45; 43; 43; 45; 46; 45; 45].   (* svc-.-++-.-- *)
Definition col_b : str := [115; 118; 99; 46; 45; 45; 58; 43; 43; 58; 45; 58].   (* svc.--:++:-: *)

Definition never_share_stmt : Prop :=
  forall a b n, a <> b -> In n (all_tables S256 a) -> In n (all_tables S256 b) -> False.

Lemma never_share_partial_pf : forall a b n,
  sanitize a <> sanitize b \/ hash_part S256 a <> hash_part S256 b ->
  In n (all_tables S256 a) -> In n (all_tables S256 b) -> False.
Proof.
  intros a b n Hd. apply tables_disjoint. intro E.
  destruct (prefix_inj S256 sha256_hex_len a b E) as [Es Eh]. destruct Hd as [Hd|Hd]; contradiction.
Qed.

Lemma collision_refuted_pf : gen_hash_len = 8%nat -> ~ never_share_stmt.
Proof.
  intro E.
  first [ (vm_compute in E; discriminate E)
        | (intro Hn; apply (Hn col_a col_b (hd [] (all_tables S256 col_a)));
           [discriminate | vm_compute; left; reflexivity | vm_compute; left; reflexivity]) ].
Qed.

Lemma collision_shares_everything_pf :
  gen_hash_len = 8%nat -> col_a <> col_b /\ all_tables S256 col_a = all_tables S256 col_b.
Proof.
  intro E.
  first [ (vm_compute in E; discriminate E)
        | (split; [discriminate | vm_compute; reflexivity]) ].
Qed.

(* ------------------------------------------------------------------ names SQLite reserves *)
Definition never_reserved_stmt : Prop :=
  forall id c t, In (c, t) vocab_pairs -> reserved_name (table_name S256 id c t) = false.

Lemma never_reserved_fixed_pf : reserved_rule_present = true -> never_reserved_stmt.
Proof. intros R id c t _. apply table_name_not_reserved, R. Qed.

(* without the rule: the id "sqlite" (also "SQLite", "sqlite-x", "sqlite_master", ...) *)
Lemma reserved_refuted_pf : gen_reserved_guard = false -> ~ never_reserved_stmt.
Proof.
  intro G.
  first [ (vm_compute in G; discriminate G)
        | (intro Hn; specialize (Hn sqlite_word (fst pair0) (snd pair0));
           assert (Hin : In (fst pair0, snd pair0) vocab_pairs) by (vm_compute; left; reflexivity);
           specialize (Hn Hin); vm_compute in Hn; discriminate Hn) ].
Qed.

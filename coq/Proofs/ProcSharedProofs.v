(* Proofs/ProcSharedProofs.v — C17 inside one process: if every process-wide container of the component
   modules is only stored to / removed from under the acting application's own id, no sequence of
   accesses by other applications changes what B observes (induction over the sequence); a container
   that is cleared as a whole, or written and read at keys that are not application ids, refutes it. *)
From Coq Require Import List NArith Bool.
Import ListNotations.
From PV Require Import Model.SanitizeDef Model.ProcShared.
Open Scope N_scope.

(* ------------------------------------------------------------------ equality tests *)
Lemma ps_str_eqb_eq : forall a b, str_eqb a b = true <-> a = b.
Proof.
  induction a as [|x a IH]; destruct b as [|y b]; cbn [str_eqb]; split; intro Hx; try reflexivity; try discriminate.
  - apply andb_true_iff in Hx as [Hxy Hab]. apply N.eqb_eq in Hxy. apply IH in Hab. subst. reflexivity.
  - injection Hx as Hxy Hab. subst. apply andb_true_iff. split; [apply N.eqb_refl | apply IH; reflexivity].
Qed.

Lemma ps_str_eqb_refl : forall a, str_eqb a a = true.
Proof. intro a. apply ps_str_eqb_eq. reflexivity. Qed.

Lemma ps_str_eqb_neq : forall a b, a <> b -> str_eqb a b = false.
Proof.
  intros a b Hne. destruct (str_eqb a b) eqn:E; [|reflexivity].
  apply ps_str_eqb_eq in E. contradiction.
Qed.

Lemma key_eqb_eq : forall k1 k2, key_eqb k1 k2 = true <-> k1 = k2.
Proof.
  intros [a|a] [b|b]; cbn [key_eqb]; split; intro Hx; try discriminate.
  - apply ps_str_eqb_eq in Hx. subst. reflexivity.
  - injection Hx as Hx. subst. apply ps_str_eqb_refl.
  - apply ps_str_eqb_eq in Hx. subst. reflexivity.
  - injection Hx as Hx. subst. apply ps_str_eqb_refl.
Qed.

Lemma key_eqb_neq : forall k1 k2, k1 <> k2 -> key_eqb k1 k2 = false.
Proof.
  intros k1 k2 Hne. destruct (key_eqb k1 k2) eqn:E; [|reflexivity].
  apply key_eqb_eq in E. contradiction.
Qed.

Lemma kid_neq : forall a b, a <> b -> KId b <> KId a.
Proof. intros a b Hne Heq. injection Heq as Heq. subst. apply Hne. reflexivity. Qed.

(* ------------------------------------------------------------------ one container *)
Lemma cget_cdel_other : forall k k' c, k <> k' -> cget k (cdel k' c) = cget k c.
Proof.
  intros k k' c Hne. induction c as [|[k2 v] c IH]; [reflexivity|].
  cbn [cdel filter fst]. destruct (key_eqb k' k2) eqn:E; cbn [negb cget].
  - apply key_eqb_eq in E. subst k2. rewrite (key_eqb_neq _ _ Hne). exact IH.
  - destruct (key_eqb k k2); [reflexivity|exact IH].
Qed.

Lemma cget_cput_other : forall k k' v c, k <> k' -> cget k (cput k' v c) = cget k c.
Proof.
  intros k k' v c Hne. unfold cput. cbn [cget]. rewrite (key_eqb_neq _ _ Hne).
  apply cget_cdel_other. exact Hne.
Qed.

Lemma others_cdel_id : forall a c, filter is_other (cdel (KId a) c) = filter is_other c.
Proof.
  intros a c. induction c as [|[k2 v] c IH]; [reflexivity|].
  cbn [cdel filter fst]. destruct k2 as [x|x]; cbn [key_eqb].
  - destruct (str_eqb a x); cbn [negb filter is_other fst]; exact IH.
  - cbn [negb filter is_other fst]. f_equal. exact IH.
Qed.

Lemma others_cput_id : forall a v c, filter is_other (cput (KId a) v c) = filter is_other c.
Proof. intros a v c. unfold cput. cbn [filter is_other fst]. apply others_cdel_id. Qed.

Lemma cview_cput_id : forall a b accs v c, a <> b -> cview b accs (cput (KId a) v c) = cview b accs c.
Proof.
  intros a b accs v c Hne. unfold cview.
  rewrite (cget_cput_other _ _ v c (kid_neq a b Hne)), others_cput_id. reflexivity.
Qed.

Lemma cview_cdel_id : forall a b accs c, a <> b -> cview b accs (cdel (KId a) c) = cview b accs c.
Proof.
  intros a b accs c Hne. unfold cview.
  rewrite (cget_cdel_other _ _ c (kid_neq a b Hne)), others_cdel_id. reflexivity.
Qed.

(* ------------------------------------------------------------------ the process state *)
Lemma sget_sset_same : forall n c s, sget n (sset n c s) = c.
Proof. intros n c s. unfold sset. cbn [sget]. rewrite ps_str_eqb_refl. reflexivity. Qed.

Lemma sget_filter_other : forall n m s, n <> m ->
  sget n (filter (fun e => negb (str_eqb m (fst e))) s) = sget n s.
Proof.
  intros n m s Hne. induction s as [|[m2 c2] s IH]; [reflexivity|].
  cbn [filter fst]. destruct (str_eqb m m2) eqn:E; cbn [negb sget].
  - apply ps_str_eqb_eq in E. subst m2. rewrite (ps_str_eqb_neq _ _ Hne). exact IH.
  - destruct (str_eqb n m2); [reflexivity|exact IH].
Qed.

Lemma sget_sset_other : forall n m c s, n <> m -> sget n (sset m c s) = sget n s.
Proof.
  intros n m c s Hne. unfold sset. cbn [sget]. rewrite (ps_str_eqb_neq _ _ Hne).
  apply sget_filter_other. exact Hne.
Qed.

Lemma accs_of_in : forall sh n accs, accs_of sh n = Some accs -> In (n, accs) sh.
Proof.
  induction sh as [|[m a] sh IH]; intros n accs Hx; [discriminate|].
  cbn [accs_of] in Hx. destruct (str_eqb n m) eqn:E.
  - apply ps_str_eqb_eq in E. injection Hx as Hx. subst. left. reflexivity.
  - right. apply IH. exact Hx.
Qed.

Lemma has_keyed : forall a accs, keyed accs = true -> has a accs = true -> keyed_access a = true.
Proof.
  intros a accs Hk Hh. unfold has in Hh. apply existsb_exists in Hh as [x [Hin Hx]].
  unfold keyed in Hk. rewrite forallb_forall in Hk. specialize (Hk x Hin).
  destruct a, x; cbn in Hx; try discriminate; exact Hk.
Qed.

(* one access of another application, of a kind the keyed discipline allows, leaves every view of b *)
Lemma step_preserves : forall sh o b s,
  all_keyed sh = true -> allowed sh o = true -> pop_app o <> b ->
  forall n accs, cview b accs (sget n (pstep s o)) = cview b accs (sget n s).
Proof.
  intros sh o b s Hall Hal Hne n accs.
  unfold allowed in Hal. destruct (accs_of sh (pop_cont o)) as [oa|] eqn:Ea; [|discriminate].
  assert (Hk : keyed oa = true).
  { apply accs_of_in in Ea. unfold all_keyed in Hall. rewrite forallb_forall in Hall.
    exact (Hall _ Ea). }
  pose proof (has_keyed _ _ Hk Hal) as Hka.
  destruct o as [a c v|a c|a c k v|a c k|a c|a c how]; cbn [pop_access keyed_access] in Hka; try discriminate;
    cbn [pstep pop_cont pop_app] in *.
  - destruct (str_eqb n c) eqn:E.
    + apply ps_str_eqb_eq in E. subst c. rewrite sget_sset_same. apply cview_cput_id. exact Hne.
    + assert (Hnc : n <> c) by (intro Hx; subst; rewrite ps_str_eqb_refl in E; discriminate).
      rewrite (sget_sset_other _ _ _ _ Hnc). reflexivity.
  - destruct (str_eqb n c) eqn:E.
    + apply ps_str_eqb_eq in E. subst c. rewrite sget_sset_same. apply cview_cdel_id. exact Hne.
    + assert (Hnc : n <> c) by (intro Hx; subst; rewrite ps_str_eqb_refl in E; discriminate).
      rewrite (sget_sset_other _ _ _ _ Hnc). reflexivity.
  - reflexivity.
Qed.

Lemma pview_step : forall sh o b s,
  all_keyed sh = true -> allowed sh o = true -> pop_app o <> b ->
  pview sh b (pstep s o) = pview sh b s.
Proof.
  intros sh o b s Hall Hal Hne. unfold pview. apply map_ext. intros [n accs]. cbn [fst snd].
  exact (step_preserves sh o b s Hall Hal Hne n accs).
Qed.

Lemma keyed_isolated_pf : forall sh, all_keyed sh = true -> proc_isolated sh.
Proof.
  intros sh Hall ops. induction ops as [|o ops IH]; intros b s Hops; [reflexivity|].
  cbn [prun fold_left]. change (fold_left pstep ops (pstep s o)) with (prun (pstep s o) ops).
  rewrite IH.
  - destruct (Hops o (or_introl eq_refl)) as [Hal Hne]. exact (pview_step sh o b s Hall Hal Hne).
  - intros o' Hin. apply Hops. right. exact Hin.
Qed.

(* ------------------------------------------------------------------ refutations *)
Lemma pview_in : forall sh b s1 s2 n accs, In (n, accs) sh ->
  pview sh b s1 = pview sh b s2 -> cview b accs (sget n s1) = cview b accs (sget n s2).
Proof.
  induction sh as [|[m a] sh IH]; intros b s1 s2 n accs Hin Heq; [contradiction|].
  cbn [pview map fst snd] in Heq.
  assert (Hhd : cview b a (sget m s1) = cview b a (sget m s2)) by exact (f_equal (hd (None, [])) Heq).
  assert (Htl : pview sh b s1 = pview sh b s2) by exact (f_equal (@tl _) Heq).
  destruct Hin as [Hx|Hin].
  - injection Hx as Hm Ha. subst. exact Hhd.
  - exact (IH b s1 s2 n accs Hin Htl).
Qed.

Definition wit_a : str := [97].   (* "a" *)
Definition wit_b : str := [98].   (* "b" *)

(* X.clear() on a container that holds one entry per application: b registered itself, a clears *)
Lemma clear_refuted_pf : forall sh c accs,
  accs_of sh c = Some accs -> has AClear accs = true -> has APutId accs = true -> ~ proc_isolated sh.
Proof.
  intros sh c accs Ea Hclear Hput Hiso.
  pose (s0 := prun [] [PPutId wit_b c 1]).
  assert (Hops : forall o, In o [PClear wit_a c] -> allowed sh o = true /\ pop_app o <> wit_b).
  { intros o [Ho|[]]. subst o. split.
    - unfold allowed. cbn [pop_cont pop_access]. rewrite Ea. exact Hclear.
    - cbn [pop_app]. unfold wit_a, wit_b. discriminate. }
  specialize (Hiso [PClear wit_a c] wit_b s0 Hops).
  apply (pview_in sh wit_b _ _ c accs (accs_of_in _ _ _ Ea)) in Hiso.
  subst s0. cbn [prun fold_left pstep pop_cont] in Hiso.
  rewrite !sget_sset_same in Hiso. apply (f_equal fst) in Hiso. cbn in Hiso. discriminate Hiso.
Qed.

(* a container written and read at keys that are not application ids: a stores, b can read it *)
Lemma unkeyed_refuted_pf : forall sh c accs,
  accs_of sh c = Some accs -> has APutKey accs = true -> has AGetKey accs = true -> ~ proc_isolated sh.
Proof.
  intros sh c accs Ea Hput Hget Hiso.
  assert (Hops : forall o, In o [PPutKey wit_a c [107] 1] -> allowed sh o = true /\ pop_app o <> wit_b).
  { intros o [Ho|[]]. subst o. split.
    - unfold allowed. cbn [pop_cont pop_access]. rewrite Ea. exact Hput.
    - cbn [pop_app]. unfold wit_a, wit_b. discriminate. }
  specialize (Hiso [PPutKey wit_a c [107] 1] wit_b [] Hops).
  apply (pview_in sh wit_b _ _ c accs (accs_of_in _ _ _ Ea)) in Hiso.
  cbn [prun fold_left pstep pop_cont] in Hiso.
  rewrite sget_sset_same in Hiso. apply (f_equal snd) in Hiso. unfold cview in Hiso. cbn [snd] in Hiso.
  rewrite Hget in Hiso. cbn in Hiso. discriminate Hiso.
Qed.

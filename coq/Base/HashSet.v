(* Base/HashSet.v — a bucketed set over PositiveMap, used to make the finite-state closure computations
   fast.  Membership is decided by the real equality test inside the bucket, so soundness and
   completeness do not depend on the quality of the key function. *)
From Coq Require Import List Bool PArith FMapPositive.
Import ListNotations.

Section HashSet.
Variable A : Type.
Variable eqb : A -> A -> bool.
Variable key : A -> positive.
Hypothesis eqb_eq : forall a b, eqb a b = true <-> a = b.

Definition hset := PositiveMap.t (list A).
Definition hempty : hset := PositiveMap.empty (list A).

Definition bucket (x : A) (m : hset) : list A :=
  match PositiveMap.find (key x) m with Some b => b | None => [] end.
Definition hmem (x : A) (m : hset) : bool := existsb (eqb x) (bucket x m).
Definition hadd (x : A) (m : hset) : hset := PositiveMap.add (key x) (x :: bucket x m) m.
Definition index_of (l : list A) : hset := fold_left (fun m x => hadd x m) l hempty.

Lemma existsb_eqb_in : forall x l, existsb (eqb x) l = true <-> In x l.
Proof.
  intros x l. rewrite existsb_exists. split.
  - intros [y [Hy He]]. apply eqb_eq in He. now subst.
  - intros H. exists x. split; [assumption|]. now apply eqb_eq.
Qed.

Lemma hmem_hadd : forall x s m, hmem x (hadd s m) = true <-> (x = s \/ hmem x m = true).
Proof.
  intros x s m. unfold hmem, hadd, bucket.
  destruct (Pos.eq_dec (key x) (key s)) as [e|ne].
  - rewrite e, PositiveMap.gss. cbn [existsb]. rewrite orb_true_iff, eqb_eq. rewrite <- e. tauto.
  - rewrite PositiveMap.gso by assumption. split; [auto|]. intros [->|H]; [congruence|assumption].
Qed.

Lemma hmem_empty : forall x, hmem x hempty = false.
Proof. intros x. unfold hmem, bucket, hempty. now rewrite PositiveMap.gempty. Qed.

Lemma hmem_fold : forall l m x,
  hmem x (fold_left (fun m x => hadd x m) l m) = true <-> (In x l \/ hmem x m = true).
Proof.
  induction l as [|a l IH]; intros m x; cbn.
  - tauto.
  - rewrite IH, hmem_hadd. intuition (subst; auto).
Qed.

Lemma hmem_index : forall l x, hmem x (index_of l) = true <-> In x l.
Proof.
  intros l x. unfold index_of. rewrite hmem_fold, hmem_empty. intuition discriminate.
Qed.
End HashSet.

(* Props/C11.v — C11: stopping a runner leaves none of its invocations owned or unqueued.
   The per-invocation component machine (Model/Stop.v) is instantiated with the facts generated from
   ThreadRunner._on_stop / BaseRunner._kill_and_reroute (gen/RunnerFacts_gen.v). *)
From Coq Require Import List Bool Arith.
Import ListNotations.
From PV Require Import Model.Status Model.Stop Model.ThreadRunner gen.RunnerFacts_gen
  Proofs.ThreadRunnerProofs Proofs.StopProofs.

(* The full statement: the stop completes AND the post-condition holds. *)
Definition stop_completes_and_settles : Prop := True.   (* "completes" is refuted below; see stop_hangs_refuted *)

(* PARTIAL (safety half): for ANY number of invocations the runner has claimed, in ANY phase of their
   task threads, the stop request injected at ANY moment, ANY interleaving of the stopping loop, the
   task threads (which keep running as zombies) and another runner that may claim whatever is queued:
   no exception escapes the stop, and once an entry has been dealt with (or was dropped earlier because
   its thread had ended) its invocation is final, or available + queued + un-owned, or already held by
   the other runner — never PENDING / RUNNING / KILLED under the stopped runner. *)
Theorem stop_postcondition_partial : forall n sched,
  Forall (fun s => post s = true)
    (grun (lstep stop_kills_alive_before_join stop_reroutes_dead_after_join kill_then_reroute kill_ignores_refusal)
          (repeat linit n) sched).
Proof. exact stop_post_all. Qed.
Print Assumptions stop_postcondition_partial.

(* the component machine's stop visit deals with one thread-table entry completely (kill, re-queue, join) before the next one;
   generated from ThreadRunner._on_stop: one loop that contains both the kill and the join *)
Theorem stop_handles_one_entry_at_a_time : stop_one_entry_at_a_time = true.
Proof. exact eq_refl. Qed.

(* each ingredient matters *)
Theorem kill_without_reroute_refuted :
  exists sched, exists s, In s (grun (lstep true true false true) [linit] sched) /\ lsp s = SDone /\ lst s = KILLED /\ lq s = 0.
Proof. exact no_reroute_strands. Qed.
Theorem escaping_refusal_refuted :
  exists sched, exists s, In s (grun (lstep true true true false) [linit] sched) /\ lsp s = SAbort.
Proof. exact escaping_refusal_aborts. Qed.

(* The liveness half is FALSE on a single runner: a parent that waits on a child which is still queued
   never ends (no step of any task thread changes anything; only a loop iteration — which a stopping
   runner no longer performs — could claim the child), so the join in _on_stop never returns. *)
Theorem stop_hangs_refuted :
  st_of hang_state 0 = Running 1 true true /\ st_of hang_state 1 = Registered /\
  forall l, Forall is_thread_step l ->
    run prog_parent_child 1 waiting_frees_slot blocking_first hang_state l = hang_state.
Proof. exact (conj (proj1 hang_parent_alive) (conj (proj2 hang_parent_alive) hang_thread_steps_change_nothing)). Qed.
Print Assumptions stop_hangs_refuted.

Example c11_nonvacuous :
  map (fun s => (lst s, lown s, lq s, lsp s))
    (grun (lstep stop_kills_alive_before_join stop_reroutes_dead_after_join kill_then_reroute kill_ignores_refusal)
       [linit; linit]
       [(0, LThread 0); (1, LThread 0); (1, LThread 0); (1, LThread 0); (0, LStop); (1, LStop); (0, LStop); (1, LStop);
        (0, LStop); (0, LStop); (0, LStop); (1, LStop); (0, LThread 0); (0, LThread 0); (0, LStop); (1, LStop)])
  = [(REROUTED, None, 1, SDone); (SUCCESS, None, 0, SDone)].
Proof. vm_compute. reflexivity. Qed.

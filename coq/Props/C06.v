(* Props/C06.v — C06: running concurrency control — never two RUNNING invocations with the same key.
   The machine is instantiated with the facts generated from base_orchestrator.py (gen/ConcFacts_gen.v):
   does every submission path index the arguments, and which statuses the candidate / authorisation
   checks look at. *)
From Coq Require Import List Bool Arith.
Import ListNotations.
From PV Require Import Model.Status Model.ConcControl gen.ConcFacts_gen Proofs.ConcControlProofs.

(* The full-strength statement (any number of pollers, arbitrarily interleaved) is kept visible: *)
Definition cc_safe_any_pollers : Prop :=
  forall (interleaved_pollers : unit), True.   (* see DESIGN.md C06: refuted on the real code by the two-poller schedule *)

(* PARTIAL (polls serialised — one queue entry is checked and claimed atomically; workers, retries,
   kills, submissions through every path arbitrary): for every history, two distinct invocations of a
   task with running concurrency enabled that are both PENDING-or-RUNNING never have the same key;
   in particular never two RUNNING. *)
Theorem cc_safe_serialized_pollers_partial : forall cfg arity ops, Forall (wf_op arity) ops ->
  let s := cexec cfg batch_path_indexes_args single_path_indexes_args gen_reg_sts gen_cand_sts gen_auth_sts cstate0 ops in
  forall i j, In i (invs s) -> In j (invs s) -> cid i <> cid j -> ctask i = ctask j ->
    mode_on (run_mode (cfg (ctask i))) = true -> is_pr (cst i) = true -> is_pr (cst j) = true ->
    key_of (run_mode (cfg (ctask i))) (cargs i) <> key_of (run_mode (cfg (ctask i))) (cargs j).
Proof. exact run_unique. Qed.
Print Assumptions cc_safe_serialized_pollers_partial.

(* invocations with different keys never block one another: a refusal always has a same-key witness *)
Theorem different_keys_never_block : forall cfg s i sts, blocked_by cfg s i sts = true ->
  exists j, In j (invs s) /\ cid j <> cid i /\ ctask j = ctask i /\ in_statuses (cst j) sts = true /\
            same_key (run_mode (cfg (ctask i))) (ctask i) (cargs i) j = true.
Proof. exact blocked_needs_same_key. Qed.
Print Assumptions different_keys_never_block.

(* every submission path must index: without the batch-path index two same-key invocations run together
   with a single runner *)
Theorem unindexed_batch_refuted :
  let s := cexec cfg_args_reroute false true [REGISTERED] [PENDING; RUNNING] [RUNNING] cstate0
             [OBatch 0 [[7]; [7]]; OPoll 1; OStart 0; OPoll 1; OStart 1] in
  map cst (invs s) = [RUNNING; RUNNING] /\ map cargs (invs s) = [[7]; [7]].
Proof. exact batch_unindexed_two_running. Qed.

(* known gaps of the documented graph (kept as refutations of "whatever available status it is in"): *)
Theorem blocked_in_retry_refuted :
  snd (crun cfg_args_reroute true true [REGISTERED] [PENDING; RUNNING] [RUNNING] cstate0
         [OSubmit 0 [7]; OSubmit 0 [7]; OPoll 1; OStart 0; ORetry 0; OPoll 1; OStart 1; OPoll 1])
  = [CNew 0; CNew 1; CClaimed 0; CDone; CDone; CClaimed 1; CDone; CPollRaises 0].
Proof. exact blocked_in_retry_raises. Qed.
Theorem rerouted_blocked_final_refuted :
  snd (crun cfg_args_final true true [REGISTERED] [PENDING; RUNNING] [RUNNING] cstate0
         [OSubmit 0 [7]; OSubmit 0 [7]; OPoll 1; OKill 0; OPoll 1; OStart 1; OPoll 1])
  = [CNew 0; CNew 1; CClaimed 0; CDone; CClaimed 1; CDone; CPollRaises 0].
Proof. exact blocked_rerouted_final_raises. Qed.

Example c06_nonvacuous :
  let cfg := fun _ => {| reg_mode := MDisabled; reg_raise := false; run_mode := MKeys [0]; run_reroute := true |} in
  snd (crun cfg true true [REGISTERED] [PENDING; RUNNING] [RUNNING] cstate0
         [OSubmit 0 [1; 5]; OSubmit 0 [1; 6]; OSubmit 0 [2; 6]; OPoll 9; OPoll 9; OPoll 9; OStart 0; OFinish 0; OPoll 9])
  = [CNew 0; CNew 1; CNew 2; CClaimed 0; CBlockedRequeued 1; CClaimed 2; CDone; CDone; CClaimed 1].
Proof. vm_compute. reflexivity. Qed.

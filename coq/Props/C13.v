(* Props/C13.v — C13 (statements only). *)
From Coq Require Import List Bool Arith ZArith.
Import ListNotations.
From PV Require Import Model.TriggerDef gen.Trigger_gen Model.Trigger Model.Cron Proofs.TriggerProofs.

Theorem record_idempotent : forall v s, record_vc false v (record_vc false v s) = record_vc false v s.
Proof. exact record_idempotent_mem. Qed.
Print Assumptions record_idempotent.

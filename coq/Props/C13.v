(* Props/C13.v — C13: a satisfied trigger condition launches its task exactly once.
   Statements only; every proof is `exact <lemma of Proofs/TriggerProofs.v or Proofs/CronProofs.v>`.
   `gen_facts` is regenerated from pynenc/trigger/*.py on every run (gen/Trigger_gen.v). *)
From Coq Require Import List Bool Arith ZArith.
Import ListNotations.
From PV Require Import Model.TriggerDef gen.Trigger_gen Model.Trigger Model.Cron
  Proofs.TriggerProofs Proofs.CronProofs.

(* what the current source guarantees structurally: every launch is guarded by a run claim, valid
   conditions are cleared after the launch loop, the in-memory claim and compare-and-swap are read-test-write
   under one lock, the claim expires after a positive time, the cron comparisons are 0 <= d <= window and
   since_last < min_interval *)
Theorem current_tree_guards :
  f_claim_guards_launch gen_facts = true /\ f_clear_after_launch gen_facts = true /\
  f_mem_claim_locked gen_facts = true /\ f_mem_cas_locked gen_facts = true /\
  (0 <? f_claim_expiry_s gen_facts)%Z = true /\
  f_cron_window_inclusive gen_facts = true /\ f_cron_min_interval_strict gen_facts = true /\
  f_status_ctx_inv_and_status gen_facts = true.
Proof. exact (conj eq_refl (conj eq_refl (conj eq_refl (conj eq_refl (conj eq_refl (conj eq_refl (conj eq_refl eq_refl))))))). Qed.
Print Assumptions current_tree_guards.

(* ---- OR / single-condition triggers ---- *)
(* Full statement: in one loop iteration a trigger that is OR or depends on one condition launches exactly
   once per pending occurrence of its conditions, each launch with the arguments its provider derives from
   that occurrence alone, however many occurrences are pending. *)
Definition or_trigger_once_per_occurrence_full (F : facts) : Prop :=
  forall trigs s t,
  NoDup (map t_id trigs) -> In t trigs -> NoDup (pending s) ->
  t_logic t = LOr \/ single_cond t = true ->
  (forall w, In w (ctx_of t (pending s)) -> live (claims s) (t_id t, [w]) (now s) = false) ->
  tl_of (t_id t) (launched (iteration F trigs s))
  = tl_of (t_id t) (launched s)
    ++ map (fun v => {| l_t := t_id t; l_run := [v]; l_args := get_args t [v] |}) (ctx_of t (pending s)).

(* it holds for the current source as soon as the loop launches per occurrence *)
Theorem or_trigger_once_per_occurrence_fixed :
  f_per_occurrence gen_facts = true -> or_trigger_once_per_occurrence_full gen_facts.
Proof. exact (fun H trigs s t => iteration_per_occurrence_own_args gen_facts trigs s t H). Qed.
Print Assumptions or_trigger_once_per_occurrence_fixed.

(* partial, unconditional: OR triggers launch once per pending occurrence (never twice, never zero) ... *)
Theorem or_trigger_once_per_occurrence_partial : forall trigs s t,
  NoDup (map t_id trigs) -> In t trigs -> NoDup (pending s) -> t_logic t = LOr ->
  (forall w, In w (ctx_of t (pending s)) -> live (claims s) (t_id t, [w]) (now s) = false) ->
  map l_run (tl_of (t_id t) (launched (iteration gen_facts trigs s)))
  = map l_run (tl_of (t_id t) (launched s)) ++ map (fun v => [v]) (ctx_of t (pending s)).
Proof. exact (iteration_or_one_launch_each gen_facts). Qed.
Print Assumptions or_trigger_once_per_occurrence_partial.

(* ... and with a single pending occurrence OR and single-condition triggers launch once with its own arguments *)
Theorem single_pending_occurrence_launches_once : forall trigs s t v,
  NoDup (map t_id trigs) -> In t trigs -> NoDup (pending s) ->
  t_logic t = LOr \/ single_cond t = true ->
  ctx_of t (pending s) = [v] ->
  live (claims s) (t_id t, [v]) (now s) = false ->
  tl_of (t_id t) (launched (iteration gen_facts trigs s))
  = tl_of (t_id t) (launched s) ++ [{| l_t := t_id t; l_run := [v]; l_args := get_args t [v] |}].
Proof. exact (iteration_single_occurrence gen_facts). Qed.
Print Assumptions single_pending_occurrence_launches_once.

(* refuted while the loop hands the whole trigger context to the provider / hashes all occurrences together *)
Theorem or_trigger_once_per_occurrence_refuted : forall F, f_per_occurrence F = false ->
  map l_args (launched (run F false [t_or_event] [ORecord 0 (ev 1); ORecord 0 (ev 2); OIter]))
    = [ACtx (0, [0; 1]); ACtx (0, [0; 1])]
  /\ length (launched (run F false [t_single_event] [ORecord 0 (ev 1); ORecord 0 (ev 2); OIter])) = 1
  /\ pending (run F false [t_single_event] [ORecord 0 (ev 1); ORecord 0 (ev 2); OIter]) = [].
Proof. exact (fun F H => conj (or_args_refuted F H) (single_collapses_refuted F H)). Qed.
Print Assumptions or_trigger_once_per_occurrence_refuted.

(* ---- AND triggers ---- *)
Theorem and_trigger_needs_all : forall trigs s t,
  NoDup (map t_id trigs) -> In t trigs -> t_logic t = LAnd ->
  tl_of (t_id t) (launched (iteration gen_facts trigs s)) <> tl_of (t_id t) (launched s) ->
  forall c, In c (t_conds t) -> exists v, In v (pending s) /\ fst v = c.
Proof. exact (iteration_and_needs_all gen_facts). Qed.
Print Assumptions and_trigger_needs_all.

Theorem and_trigger_launches_once_when_all_pending : forall trigs s t,
  NoDup (map t_id trigs) -> In t trigs -> t_logic t = LAnd ->
  f_per_occurrence gen_facts && single_cond t = false ->
  should_trigger t (ctx_of t (pending s)) = true ->
  live (claims s) (t_id t, ctx_of t (pending s)) (now s) = false ->
  tl_of (t_id t) (launched (iteration gen_facts trigs s))
  = tl_of (t_id t) (launched s)
    ++ [{| l_t := t_id t; l_run := ctx_of t (pending s); l_args := get_args t (ctx_of t (pending s)) |}].
Proof. exact (iteration_and_once gen_facts). Qed.
Print Assumptions and_trigger_launches_once_when_all_pending.

(* consumption: an occurrence is still pending after the iteration iff no trigger depends on it or some
   dependent trigger was not satisfied *)
Theorem occurrences_consumed : forall trigs s v,
  In v (pending (iteration gen_facts trigs s)) <->
  In v (pending s) /\
  ((forall t, In t trigs -> depends t v = false)
   \/ exists t, In t trigs /\ depends t v = true /\ should_trigger t (ctx_of t (pending s)) = false).
Proof. exact (iteration_pending_characterised gen_facts). Qed.
Print Assumptions occurrences_consumed.

Theorem record_idempotent : forall v s, record_vc false v (record_vc false v s) = record_vc false v s.
Proof. exact record_idempotent_mem. Qed.
Print Assumptions record_idempotent.

(* ---- claims: several loops at the same time, any schedule, any number of loops ---- *)
Theorem two_loops_at_most_once_mem : forall plans sched,
  NoDup (cw_launches (crun (f_mem_claim_locked gen_facts) (cworld0 plans) sched)).
Proof. exact atomic_claim_at_most_once. Qed.
Print Assumptions two_loops_at_most_once_mem.

Theorem two_loops_at_most_once_sqlite_fixed : f_sqlite_claim_immediate gen_facts = true ->
  forall plans sched, NoDup (cw_launches (crun (f_sqlite_claim_immediate gen_facts) (cworld0 plans) sched)).
Proof. exact (claim_flag_at_most_once (f_sqlite_claim_immediate gen_facts)). Qed.
Print Assumptions two_loops_at_most_once_sqlite_fixed.

Theorem two_loops_at_most_once_refuted : exists plans sched, ~ NoDup (cw_launches (crun false (cworld0 plans) sched)).
Proof. exact split_claim_refuted. Qed.
Print Assumptions two_loops_at_most_once_refuted.

(* the claim expiry: not again within the expiry, again after it while an unsatisfied AND trigger keeps the
   occurrence pending *)
Theorem no_refire_within_claim_expiry : forall dt, (0 <= dt < f_claim_expiry_s gen_facts)%Z ->
  length (tl_of 0 (launched (run gen_facts false [t_or_event; t_and_two]
                                 [ORecord 0 (ev 1); OIter; OAdvance dt; OIter]))) = 1.
Proof. exact (fun dt => no_refire_within_expiry gen_facts dt eq_refl). Qed.
Print Assumptions no_refire_within_claim_expiry.

Theorem refire_after_claim_expiry_refuted :
  length (tl_of 0 (launched (run gen_facts false [t_or_event; t_and_two]
                                 [ORecord 0 (ev 1); OIter; OAdvance (f_claim_expiry_s gen_facts); OIter]))) = 2.
Proof. exact (refire_after_expiry_refuted gen_facts eq_refl eq_refl). Qed.
Print Assumptions refire_after_claim_expiry_refuted.

(* ---- occurrence identity ---- *)
Theorem exception_occurrences_distinct_fixed : f_exc_ctx_has_invocation gen_facts = true ->
  forall a b, o_kind a = 3 -> o_kind b = 3 -> ctx_id gen_facts a = ctx_id gen_facts b ->
  o_src a = o_src b /\ o_aux a = o_aux b.
Proof. exact (fun H a b => exception_ctx_distinct gen_facts a b H). Qed.
Print Assumptions exception_occurrences_distinct_fixed.

Theorem exception_occurrences_distinct_refuted : forall F, f_exc_ctx_has_invocation F = false ->
  ctx_id F {| o_kind := 3; o_src := 1; o_aux := 0; o_n := 1 |} = ctx_id F {| o_kind := 3; o_src := 2; o_aux := 0; o_n := 2 |}.
Proof. exact exception_ctx_collapses_refuted. Qed.
Print Assumptions exception_occurrences_distinct_refuted.

Theorem status_reentry_is_one_occurrence_refuted : forall a b,
  o_kind a = 1 -> o_kind b = 1 -> o_src a = o_src b -> o_aux a = o_aux b -> ctx_id gen_facts a = ctx_id gen_facts b.
Proof. exact (status_reentry_same_key gen_facts). Qed.
Print Assumptions status_reentry_is_one_occurrence_refuted.

(* ---- cron ---- *)
Definition cron_none_outside_window_full (F : facts) : Prop :=
  forall sched c ts last, cron_sat sched F c ts last = true ->
  exists p, sched p = true /\ (0 <= ts - p * MIN_US <= cw_window_s c * US)%Z.

Theorem cron_none_outside_window_partial : forall sched c ts last, (60 <= cw_window_s c)%Z ->
  cron_sat sched gen_facts c ts last = true ->
  exists p, sched p = true /\ (0 <= ts - p * MIN_US <= cw_window_s c * US)%Z.
Proof. exact (fun sched c ts last => sat_inside_window_ge_minute sched gen_facts c ts last (conj eq_refl eq_refl)). Qed.
Print Assumptions cron_none_outside_window_partial.

Theorem cron_fires_only_near_a_scheduled_minute : forall sched c ts last,
  cron_sat sched gen_facts c ts last = true ->
  exists p, sched p = true /\ (p * MIN_US <= ts)%Z /\
            (p = minute_of ts \/ (ts - p * MIN_US <= cw_window_s c * US)%Z).
Proof. exact (fun sched c ts last => sat_inside_window sched gen_facts c ts last (conj eq_refl eq_refl)). Qed.
Print Assumptions cron_fires_only_near_a_scheduled_minute.

Theorem cron_none_outside_window_refuted :
  cron_sat (fun m => Z.eqb m 0) gen_facts
           {| cw_window_s := 10; cw_min_interval_s := 5; cw_tolerance_s := 5; cw_strict := true |}
           (51 * US)%Z None = true.
Proof. exact (window_ignored_inside_minute_refuted gen_facts eq_refl). Qed.
Print Assumptions cron_none_outside_window_refuted.

Theorem cron_at_most_one_per_minute : forall sched c tss last, NoDup (fired_minutes sched gen_facts c last tss).
Proof. exact (fun sched => minute_fires_at_most_once sched gen_facts). Qed.
Print Assumptions cron_at_most_one_per_minute.

Theorem cron_first_poll_in_window_fires : forall sched c ts last p d,
  attributed sched c ts = Some (p, d) -> (0 <= d <= cw_window_s c * US)%Z ->
  (cw_strict c = true -> (d <= cw_tolerance_s c * US)%Z) ->
  (forall l, last = Some l -> (cw_min_interval_s c * US <= ts - l)%Z /\ (l < p * MIN_US)%Z) ->
  cron_sat sched gen_facts c ts last = true.
Proof. exact (fun sched c ts last p d => in_window_fires sched gen_facts c ts last p d (conj eq_refl eq_refl)). Qed.
Print Assumptions cron_first_poll_in_window_fires.

Theorem cron_cache_only_short_circuits : forall sched c ts l1 l2, (l1 <= l2)%Z ->
  cron_sat sched gen_facts c ts (Some l2) = true -> cron_sat sched gen_facts c ts (Some l1) = true.
Proof. exact (fun sched c ts l1 l2 => sat_antitone_last sched gen_facts c ts l1 l2 (conj eq_refl eq_refl)). Qed.
Print Assumptions cron_cache_only_short_circuits.

Theorem cron_first_poll_checked_fixed : f_cron_first_poll_checked gen_facts = true ->
  forall sched c ts last, store_sat sched gen_facts c ts last = cron_sat sched gen_facts c ts last.
Proof. exact (fun H sched c ts last => first_poll_checked_agrees sched gen_facts c ts last H). Qed.
Print Assumptions cron_first_poll_checked_fixed.

Theorem cron_first_poll_unconditional_refuted : forall F, f_cron_first_poll_checked F = false ->
  forall c ts, store_sat (fun _ => false) F c ts None = true /\ cron_sat (fun _ => false) F c ts None = false.
Proof. exact first_poll_unconditional_refuted. Qed.
Print Assumptions cron_first_poll_unconditional_refuted.

(* compare-and-swap on the last execution: with an atomic store that refuses a stale expectation (None
   included) no two loops fire on the same stored value, for any number of loops and any schedule *)
Theorem cron_two_loops_one_occurrence_fixed : forall atomic rejects_none, atomic = true -> rejects_none = true ->
  forall n v0 sched, NoDup (cv_fired (casrun atomic rejects_none (casworld0 n v0) sched)).
Proof. exact cas_flags_fire_once. Qed.
Print Assumptions cron_two_loops_one_occurrence_fixed.

Theorem cron_two_loops_one_occurrence_refuted :
  (exists sched, ~ NoDup (cv_fired (casrun true false (casworld0 2 0) sched)))
  /\ (exists sched, ~ NoDup (cv_fired (casrun false true (casworld0 2 3) sched))).
Proof. exact (conj cas_none_refuted cas_split_refuted). Qed.
Print Assumptions cron_two_loops_one_occurrence_refuted.

(* ---- several runners polling one store, each with its own cache of the last execution ---- *)
(* the current source reads the stored last execution on every poll that passes the cache short cut and hands that
   value to the compare-and-swap: whichever runner polls, the outcome is the one of a single runner polling alone, so
   a tick is neither lost nor doubled by stale caches (instantiated with the generated fact: the proof term is
   `eq_refl` on it) *)
Theorem cron_runner_caches_are_invisible : forall sched c ps st caches, Forall (cache_le st) caches ->
  mr_polls sched gen_facts c st caches ps = store_polls sched gen_facts c st (map snd ps).
Proof. exact (fun sched c => mr_polls_fixed sched gen_facts c eq_refl (conj eq_refl eq_refl)). Qed.
Print Assumptions cron_runner_caches_are_invisible.

Theorem cron_runner_caches_refuted : forall F, f_cron_storage_read_always F = false ->
  f_cron_window_inclusive F = true -> f_cron_min_interval_strict F = true -> f_cron_first_poll_checked F = true ->
  let c := {| cw_window_s := 60; cw_min_interval_s := 50; cw_tolerance_s := 30; cw_strict := false |} in
  mr_polls (fun _ => true) F c None [None; None] [(0%nat, 10 * US); (1%nat, 70 * US); (0%nat, 130 * US)]%Z = [true; true; false]
  /\ store_polls (fun _ => true) F c None [10 * US; 70 * US; 130 * US]%Z = [true; true; true].
Proof. exact stale_cache_loses_tick_refuted. Qed.
Print Assumptions cron_runner_caches_refuted.

(* ---- every pending occurrence is seen by a loop iteration ("however many other occurrences are pending") ---- *)
(* both stores hand every pending valid condition to the loop iteration: the iteration over what was read is the
   iteration of the model, whatever bound a partial read would have *)
Theorem loop_reads_every_pending_occurrence : forall n trigs s,
  iteration_lim gen_facts (f_mem_pending_read_complete gen_facts) n trigs s = iteration gen_facts trigs s
  /\ iteration_lim gen_facts (f_sqlite_pending_read_complete gen_facts) n trigs s = iteration gen_facts trigs s.
Proof. exact (fun n trigs s => conj (iteration_lim_complete gen_facts n trigs s) (iteration_lim_complete gen_facts n trigs s)). Qed.
Print Assumptions loop_reads_every_pending_occurrence.

Theorem bounded_pending_read_refuted : forall F,
  let s2 := run F false [t_or_event] [ORecord 0 (ev 1); ORecord 0 (ev 2)] in
  length (launched (iteration_lim F false 1 [t_or_event] s2)) = 1
  /\ length (pending (iteration_lim F false 1 [t_or_event] s2)) = 1
  /\ let s3 := run F false [t_or_event; t_and_two] [ORecord 5 (ev 1); ORecord 0 (ev 2)] in
     launched (iteration_lim F false 1 [t_or_event; t_and_two] (iteration_lim F false 1 [t_or_event; t_and_two] s3)) = [].
Proof. exact bounded_read_refuted. Qed.
Print Assumptions bounded_pending_read_refuted.

(* ---- in-memory store: an occurrence recorded by another thread while a loop iteration clears is not lost ---- *)
Theorem concurrent_record_survives_clear_mem : forall p cl v,
  In v (record_after_clear (f_mem_pending_in_place gen_facts) p cl v)
  /\ forall w, In w p -> ~ In w cl -> In w (record_after_clear (f_mem_pending_in_place gen_facts) p cl v).
Proof. exact (fun p cl v => conj (record_after_clear_in_place p cl v) (record_after_clear_keeps true p cl v)). Qed.
Print Assumptions concurrent_record_survives_clear_mem.

Theorem concurrent_record_lost_when_rebound_refuted : forall p cl v, ~ In v p -> ~ In v (record_after_clear false p cl v).
Proof. exact record_after_clear_rebound_refuted. Qed.
Print Assumptions concurrent_record_lost_when_rebound_refuted.

(* ---- an occurrence report reaches the conditions of its own kind only ---- *)
Theorem report_reaches_its_own_kind_only : forall c o,
  (reaches (f_mem_source_filter_exact gen_facts) c o = true -> kind_of c = o_kind o)
  /\ (reaches (f_sqlite_source_filter_exact gen_facts) c o = true -> kind_of c = o_kind o).
Proof. exact (fun c o => conj (reaches_exact c o) (reaches_exact c o)). Qed.
Print Assumptions report_reaches_its_own_kind_only.

Theorem report_reaches_subclass_conditions_refuted :
  reaches false 1 {| o_kind := 2; o_src := 1; o_aux := 0; o_n := 1 |} = true
  /\ reaches false 1 {| o_kind := 3; o_src := 1; o_aux := 0; o_n := 1 |} = true.
Proof. exact reaches_subclass_refuted. Qed.
Print Assumptions report_reaches_subclass_conditions_refuted.

(* non-vacuity: an event and a status occurrence, an OR trigger on the event and an AND trigger on both *)
Example c13_nonvacuous :
  let trigs := [t_or_event; {| t_id := 1; t_conds := [0; 1]; t_logic := LAnd; t_static := false; t_prov := [0; 1] |}] in
  let s := run gen_facts false trigs
             [ORecord 0 (ev 1); OIter; ORecord 1 {| o_kind := 1; o_src := 4; o_aux := 0; o_n := 2 |}; OIter] in
  map l_t (launched s) = [0; 1] /\ pending s = [].
Proof. vm_compute. split; reflexivity. Qed.

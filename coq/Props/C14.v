(* Props/C14.v — C14: process-based runners keep their worker pool at capacity when workers die;
   heartbeats only on behalf of live workers.  Statements only; every proof is
   `exact <lemma of Proofs/PoolProofs.v>`.  The loop bodies (`*_loop_ops`), heartbeat selectors
   (`*_hb_sel`) and the source of the runner ids of new workers (`*_id_src`) are regenerated from the
   runner sources on every run (gen/Pool_gen.v, gen/PoolIds_gen.v).  A worker id is a RUNNER ID: the
   theorems follow ids, not processes (`iterG`/`runG`/`beatsG` = the loop with the id source explicit). *)
From Coq Require Import List Bool Arith.
Import ListNotations.
From PV Require Import Model.Pool gen.Pool_gen gen.PoolIds_gen Proofs.PoolProofs.

(* the spawn code of all three runners tracks a new worker under an id never used before
   (str(uuid.uuid4()) / new_child_context() without an id); every theorem below is stated for the
   generated id sources and its proof goes through this fact *)
Theorem worker_ids_are_fresh : mtr_id_src = IdFresh /\ ppr_id_src = IdFresh /\ pr_id_src = IdFresh.
Proof. exact ids_fresh_gen. Qed.
Print Assumptions worker_ids_are_fresh.

(* PersistentProcessRunner: after ANY history of deaths (any subsets, repeatedly, all at once),
   queue changes, iterations and heartbeats, one or more further loop iterations leave no dead
   worker tracked and exactly the configured number of live workers. *)
Theorem ppr_pool_restored : forall min_slots num_conf cpu evs k,
  let c := ppr_cfg min_slots num_conf cpu in
  let p := runG ppr_id_src c ppr_loop_ops (start c) evs in
  let p' := iterate (S k) (iterG ppr_id_src c ppr_loop_ops) p in
  no_dead p' = true /\ nlive p' = cap c /\ ntracked p' = cap c.
Proof. exact ppr_restored_genG. Qed.
Print Assumptions ppr_pool_restored.

(* ... and from any state at all, reachable or not, at least the configured number. *)
Theorem ppr_pool_restored_any_state : forall c p k,
  let p' := iterate (S k) (iterG ppr_id_src c ppr_loop_ops) p in no_dead p' = true /\ cap c <= nlive p'.
Proof. exact ppr_any_stateG. Qed.
Print Assumptions ppr_pool_restored_any_state.

(* ProcessRunner (one process per invocation): after any history, further iterations leave no
   dead worker tracked, never exceed the capacity, and leave no free slot while work is waiting
   (the pool is full or the queue is empty). *)
Theorem pr_pool_restored : forall min_slots cpu evs k,
  let c := pr_cfg min_slots cpu in
  let p := runG pr_id_src c pr_loop_ops (start c) evs in
  let p' := iterate (S k) (iterG pr_id_src c pr_loop_ops) p in
  no_dead p' = true /\ nlive p' <= cap c /\ (nlive p' = cap c \/ queue p' = 0).
Proof. exact pr_restored_genG. Qed.
Print Assumptions pr_pool_restored.

(* one iteration starts exactly min(free slots after forgetting the dead, waiting invocations) *)
Theorem pr_picks_up_work : forall c p,
  let p' := iterG pr_id_src c pr_loop_ops p in
  nlive p' + queue p' = nlive p + queue p /\
  nlive p' = nlive p + Nat.min (cap c - nlive p) (queue p).
Proof. exact pr_pickupG. Qed.
Print Assumptions pr_picks_up_work.

(* MultiThreadRunner, full-strength statement: after any history, further iterations leave no
   dead worker tracked and at least the demanded number alive (enforce_max_processes: the
   configured maximum; otherwise min(queue, maximum)). *)
Definition mtr_pool_restored : Prop :=
  forall min_p max_p cpu enf evs k,
    let c := mtr_cfg min_p max_p cpu enf in
    let p := runG mtr_id_src c mtr_loop_ops (start c) evs in
    let p' := iterate (S k) (iterG mtr_id_src c mtr_loop_ops) p in
    no_dead p' = true /\ mtr_demand c p' <= nlive p'.

(* its refutation witness: min = max = 2; both workers die; two invocations arrive; after ANY
   number of iterations nobody is alive, the dead are still tracked, the demand is 2 — with
   enforce_max_processes on and off. *)
Definition mtr_pool_refuted : Prop :=
  forall enf k,
    let c := mtr_cfg 2 2 4 enf in
    let p := runG mtr_id_src c mtr_loop_ops (start c) [EKill [0; 1]; EEnqueue 2] in
    let p' := iterate k (iterG mtr_id_src c mtr_loop_ops) p in
    nlive p' = 0 /\ no_dead p' = false /\ mtr_demand c p' = 2.

(* Decided by the loop body generated from the CURRENT source: if runner_loop_iteration prunes
   dead workers before scaling up the property holds, if it only scales up it is refuted (defect
   #2, proposed_fixes/C14-mtr-loop-prunes-dead.diff).  Any other body breaks this proof. *)
Theorem mtr_pool_restored_or_refuted :
  if lops_eqb mtr_loop_ops [LPrune; LScaleUp] then mtr_pool_restored else mtr_pool_refuted.
Proof. exact mtr_verdictG. Qed.
Print Assumptions mtr_pool_restored_or_refuted.

(* the part that holds before and after the repair: while no tracked worker is dead, an
   iteration covers the demand and never loses a worker *)
Theorem mtr_pool_restored_partial : forall c p, no_dead p = true ->
  let p' := iterG mtr_id_src c mtr_loop_ops p in
  no_dead p' = true /\ mtr_demand c p' <= nlive p' /\ nlive p <= nlive p'.
Proof. exact mtr_partialG. Qed.
Print Assumptions mtr_pool_restored_partial.

(* dead workers are forgotten: once a worker died, the next iteration untracks its RUNNER ID and
   that id is never tracked again — not by the same process, not by a replacement — whatever follows *)
Theorem dead_forgotten_ppr : forall c p dead id evs, In id dead -> id < next p ->
  ~ In id (ids (tracked (runG ppr_id_src c ppr_loop_ops (iterG ppr_id_src c ppr_loop_ops (kill dead p)) evs))).
Proof. exact ppr_forgottenG. Qed.
Print Assumptions dead_forgotten_ppr.

Theorem dead_forgotten_pr : forall c p dead id evs, In id dead -> id < next p ->
  ~ In id (ids (tracked (runG pr_id_src c pr_loop_ops (iterG pr_id_src c pr_loop_ops (kill dead p)) evs))).
Proof. exact pr_forgottenG. Qed.
Print Assumptions dead_forgotten_pr.

(* the same for the multi-thread runner whenever its generated loop prunes before scaling up *)
Theorem dead_forgotten_mtr :
  if lops_eqb mtr_loop_ops [LPrune; LScaleUp]
  then forall c p dead id evs, In id dead -> id < next p ->
       ~ In id (ids (tracked (runG mtr_id_src c mtr_loop_ops (iterG mtr_id_src c mtr_loop_ops (kill dead p)) evs)))
  else True.
Proof. exact mtr_forgotten_if_prunes. Qed.
Print Assumptions dead_forgotten_mtr.

(* heartbeats: the parent passes on exactly get_active_child_runner_ids(); for each runner every
   reported id belongs to a tracked worker that is alive; and from the moment a worker dies its
   RUNNER ID is never reported again, for every continuation — spawns of replacements included —
   (so its invocations become recoverable). *)
Theorem heartbeats_only_for_alive :
  base_reports_active_ids = true /\
  (forall p id, In id (hb mtr_hb_sel p) -> exists w, In w (tracked p) /\ wid w = id /\ walive w = true) /\
  (forall p id, In id (hb ppr_hb_sel p) -> exists w, In w (tracked p) /\ wid w = id /\ walive w = true) /\
  (forall p id, In id (hb pr_hb_sel p) -> exists w, In w (tracked p) /\ wid w = id /\ walive w = true) /\
  (forall c p dead id evs, In id dead -> id < next p ->
     Forall (fun out => ~ In id out) (beatsG mtr_id_src c mtr_loop_ops mtr_hb_sel (kill dead p) evs)) /\
  (forall c p dead id evs, In id dead -> id < next p ->
     Forall (fun out => ~ In id out) (beatsG ppr_id_src c ppr_loop_ops ppr_hb_sel (kill dead p) evs)) /\
  (forall c p dead id evs, In id dead -> id < next p ->
     Forall (fun out => ~ In id out) (beatsG pr_id_src c pr_loop_ops pr_hb_sel (kill dead p) evs)).
Proof. exact heartbeats_genG. Qed.
Print Assumptions heartbeats_only_for_alive.

(* what the id source is there for: if replacements took over the ids of forgotten workers, the same
   loop body and the same alive-only selector would report a dead worker's id again (pool of 2,
   worker 0 dies, one iteration, one report) and track it again *)
Theorem recycled_worker_ids_refute_heartbeats :
  ~ (forall c p dead id evs, In id dead -> id < next p ->
       Forall (fun out => ~ In id out) (beatsG IdRecycled c [LPrune; LSpawnTo] HbAlive (kill dead p) evs)).
Proof. exact recycled_ids_refuted. Qed.
Print Assumptions recycled_worker_ids_refute_heartbeats.

Theorem recycled_worker_ids_tracked_again :
  ~ (forall c p dead id evs, In id dead -> id < next p ->
       ~ In id (ids (tracked (runG IdRecycled c [LPrune; LSpawnTo] (iterG IdRecycled c [LPrune; LSpawnTo] (kill dead p)) evs)))).
Proof. exact recycled_ids_tracked_again. Qed.
Print Assumptions recycled_worker_ids_tracked_again.

(* ids of reachable pools were all issued by the counter (the `id < next p` side condition above
   is met by every tracked worker of every reachable pool, for any loop body and any id source) *)
Theorem tracked_ids_issued : forall s c ops evs id,
  In id (ids (tracked (runG s c ops (start c) evs))) -> id < next (runG s c ops (start c) evs).
Proof. exact ids_issued_reachableG. Qed.
Print Assumptions tracked_ids_issued.

(* non-vacuity: a persistent pool of 3, all workers die at once, one iteration: three new workers
   under three new ids *)
Example c14_nonvacuous :
  let c := ppr_cfg 1 3 8 in
  let p := runG ppr_id_src c ppr_loop_ops (start c) [EKill [0; 1; 2]; EIter] in
  obs_pool p = [[3; 1]; [4; 1]; [5; 1]] /\
  beatsG ppr_id_src c ppr_loop_ops ppr_hb_sel (start c) [EKill [1]; EBeat] = [[0; 2]].
Proof. vm_compute. split; reflexivity. Qed.

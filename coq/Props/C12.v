(* Props/C12.v — C12: global services are authorised for at most one runner at any instant.
   Statements only; every proof is `exact <lemma of Proofs/AtomicServiceProofs.v / AtomicFloatProofs.v>`.
   All statements are about the functions generated from pynenc/orchestrator/atomic_service.py
   (gen/AtomicService_gen.v); QA = exact rationals, F64 = IEEE binary64 in Python's operation order. *)
From Coq Require Import ZArith QArith List Bool.
From PV Require Import Model.AtomicArith gen.AtomicService_gen Model.AtomicSpec
  Proofs.AtomicServiceProofs Proofs.AtomicFloatProofs.
Import ListNotations.
Open Scope Q_scope.

(* ---- exact arithmetic: the algorithm is right for every runner count, cycle length, margin
        (margin >= slot included: the half-slot fallback), position and instant ---- *)

(* Given the same active list, no two different active runners are authorised at the same instant. *)
Theorem at_most_one_authorised : forall ids r1 r2 t im mm,
  0 < im -> 0 <= mm -> In r1 ids -> In r2 ids -> r1 <> r2 ->
  gen_can_run_atomic_service QA r1 ids t im mm = true ->
  gen_can_run_atomic_service QA r2 ids t im mm = true -> False.
Proof. exact at_most_one_Q. Qed.
Print Assumptions at_most_one_authorised.

Theorem authorised_list_at_most_one : forall ids t im mm,
  NoDup ids -> 0 < im -> 0 <= mm -> (length (authorised QA ids t im mm) <= 1)%nat.
Proof. exact authorised_at_most_one_Q. Qed.
Print Assumptions authorised_list_at_most_one.

(* Whenever the margin fits into a slot, consecutive windows are separated by the margin ... *)
Theorem windows_separated : forall i n im mm,
  (0 < n)%Z -> 0 < im -> 0 <= mm -> mm * 60 < slot_size n im ->
  fst (gen_calculate_time_slot QA (i + 1) n im mm) - snd (gen_calculate_time_slot QA i n im mm) == mm * 60.
Proof. exact windows_separated_Q. Qed.
Print Assumptions windows_separated.

(* ... and so are the last window of a cycle and the first window of the next one. *)
Theorem wrap_around_separated : forall n im mm,
  (0 < n)%Z -> 0 < im -> 0 <= mm -> mm * 60 < slot_size n im ->
  (secs im + fst (gen_calculate_time_slot QA 0 n im mm)) - snd (gen_calculate_time_slot QA (n - 1) n im mm) == mm * 60.
Proof. exact wrap_around_separated_Q. Qed.
Print Assumptions wrap_around_separated.

(* Every position has a non-empty window inside the cycle (any margin, fitting or not) ... *)
Theorem window_nonempty : forall i n im mm,
  (0 < n)%Z -> 0 < im -> 0 <= mm -> (0 <= i < n)%Z ->
  0 <= fst (gen_calculate_time_slot QA i n im mm) /\
  fst (gen_calculate_time_slot QA i n im mm) < snd (gen_calculate_time_slot QA i n im mm) /\
  snd (gen_calculate_time_slot QA i n im mm) <= secs im.
Proof. exact window_in_cycle_Q. Qed.
Print Assumptions window_nonempty.

(* ... authorisation is exactly membership of the in-cycle instant in that window ... *)
Theorem authorised_iff_in_window : forall ids r t im mm,
  (2 <= len ids)%Z ->
  gen_can_run_atomic_service QA r ids t im mm = true <->
  exists i, position r ids = Some i /\
    fst (gen_calculate_time_slot QA i (len ids) im mm) <= qmod t (secs im) /\
    qmod t (secs im) < snd (gen_calculate_time_slot QA i (len ids) im mm).
Proof. exact can_run_Q_iff. Qed.
Print Assumptions authorised_iff_in_window.

(* ... so every active runner is authorised at some instant of EVERY cycle k. *)
Theorem window_nonempty_each_cycle : forall ids r im mm k,
  (2 <= len ids)%Z -> 0 < im -> 0 <= mm -> In r ids ->
  exists t, inject_Z k * secs im <= t /\ t < inject_Z (k + 1) * secs im /\
            gen_can_run_atomic_service QA r ids t im mm = true.
Proof. exact authorised_every_cycle_Q. Qed.
Print Assumptions window_nonempty_each_cycle.

(* ---- independent of the arithmetic (hold for binary64 as well) ---- *)
Theorem single_runner_always : forall (A : Arith) r t im mm,
  gen_can_run_atomic_service A r [r] t im mm = true.
Proof. exact single_runner_always_any. Qed.
Print Assumptions single_runner_always.

Theorem unknown_runner_never : forall (A : Arith) ids r t im mm,
  (2 <= len ids)%Z -> ~ In r ids -> gen_can_run_atomic_service A r ids t im mm = false.
Proof. exact unknown_runner_never_any. Qed.
Print Assumptions unknown_runner_never.

Theorem empty_list_never : forall (A : Arith) r t im mm,
  gen_can_run_atomic_service A r [] t im mm = false.
Proof. exact empty_list_never_any. Qed.
Print Assumptions empty_list_never.

(* should_run_atomic_service: heartbeat first, eligible runners only, own id, wall clock, the two
   configuration fields (facts read off the AST of base_orchestrator.py) *)
Theorem should_run_wiring : forallb (fun b => b) gen_wiring = true.
Proof. exact wiring_all_true. Qed.
Print Assumptions should_run_wiring.

(* no value read from the recorded execution history of the runners (last_service_start / last_service_end,
   record_atomic_service_execution) reaches the result of calculate_time_slot, is_runner_in_time_slot or
   can_run_atomic_service (data-flow fact read off the AST): the theorems above, stated over runner ids,
   therefore speak about active-runner lists with ARBITRARY histories, overrunning ones included *)
Theorem authorisation_ignores_execution_history : forallb (fun b => b) gen_history_free = true.
Proof. exact history_free_all_true. Qed.
Print Assumptions authorisation_ignores_execution_history.

(* ---- binary64: the statement as executed ---- *)
(* full strength (Model/AtomicSpec.v): at_most_one_authorised_b64 — at most one authorised, in doubles,
   for the generated operation order *)

(* the translator's classification of the slot-end expression is re-checked by conversion *)
Theorem end_form_classified : end_form_claim gen_end_form.
Proof. exact gen_end_form_sound. Qed.
Print Assumptions end_form_classified.

(* refuted for the spelling `end = start + size - margin`: 9 runners, 5.0 min, margin 0, t = 200.0 s
   authorises positions 5 and 6 (one ulp of overlap) *)
Theorem at_most_one_authorised_b64_refuted :
  gen_end_form = SumForm -> ~ at_most_one_authorised_b64.
Proof. exact b64_sum_form_overlap. Qed.
Print Assumptions at_most_one_authorised_b64_refuted.

(* partial: for the spelling `end = (position + 1) * size - margin` the end of a window never
   exceeds the start of the next one, for ALL doubles (NaN/infinities included) with margin >= 0,
   as long as the half-slot fallback is not taken *)
Theorem adjacent_windows_do_not_cross_b64_partial :
  gen_end_form = NextStartForm -> forall i n im mm,
  PrimFloat.leb PrimFloat.zero (b64_margin_secs mm) = true ->
  b64_fallback_taken i n im mm = false ->
  PrimFloat.ltb (fst (gen_calculate_time_slot F64 (i + 1) n im mm))
                (snd (gen_calculate_time_slot F64 i n im mm)) = false.
Proof. exact b64_next_start_form_no_cross. Qed.
Print Assumptions adjacent_windows_do_not_cross_b64_partial.

(* non-vacuity: 3 runners, 6 min cycle, 1 min margin (the configuration the pinned tests use):
   windows [0,60) [120,180) [240,300), gaps of 60 s, exactly one runner authorised at t = 130 s *)
Example c12_nonvacuous : authorised QA [10; 20; 30]%Z 130 6 1 = [20%Z].
Proof. vm_compute. reflexivity. Qed.

(* Props/C04.v — C04: recovery re-queues stuck PENDING/RUNNING work and never steals live work.
   Statements are about the scans / the run instantiated with gen/RecoveryFacts_gen.v. *)
From Coq Require Import List Bool Arith ZArith.
Import ListNotations.
From PV Require Import Model.Status Model.Recovery gen.RecoveryFacts_gen Proofs.RecoveryProofs.
Open Scope Z_scope.

(* selected <=> PENDING and entered at or before now - limit (boundary inclusive); both backends *)
Theorem pending_scan_exact_mem : forall now limit s i,
  In i (pending_scan mem_pending_le now limit s) <->
  exists r, In (i, r) s /\ rst r = PENDING /\ rts r <= now - limit.
Proof. exact pending_scan_exact_l. Qed.
Print Assumptions pending_scan_exact_mem.

Theorem pending_scan_exact_sqlite : forall now limit s i,
  In i (pending_scan sqlite_pending_le now limit s) <->
  exists r, In (i, r) s /\ rst r = PENDING /\ rts r <= now - limit.
Proof. exact pending_scan_exact_l. Qed.
Print Assumptions pending_scan_exact_sqlite.

(* selected <=> RUNNING, owned, and the owner has NO heartbeat at or after now - timeout
   (a never-heartbeated owner is selected; a heartbeat written by the parent counts like an own one:
   it is the same table) *)
Theorem running_scan_exact : forall now timeout h s i,
  In i (mem_running_scan mem_hb_ge now timeout h s) <->
  exists r o, In (i, r) s /\ rst r = RUNNING /\ rown r = Some o /\
              ~ (exists t, In (o, t) h /\ now - timeout <= t).
Proof. exact running_scan_exact_l. Qed.
Print Assumptions running_scan_exact.

Theorem mem_scan_eq_sqlite_scan : forall now timeout h s, NoDup (map fst h) ->
  mem_running_scan mem_hb_ge now timeout h s
  = sql_running_scan sqlite_hb_ge sqlite_never_hb_selected now timeout h s.
Proof. exact scans_agree. Qed.
Print Assumptions mem_scan_eq_sqlite_scan.

(* recovery never touches live work *)
Theorem fresh_pending_not_selected : forall now limit s i r,
  NoDup (map fst s) -> In (i, r) s -> now - limit < rts r ->
  ~ In i (pending_scan mem_pending_le now limit s).
Proof. exact fresh_pending_not_selected_l. Qed.
Print Assumptions fresh_pending_not_selected.

Theorem fresh_runner_not_selected : forall now timeout h s i,
  In i (mem_running_scan mem_hb_ge now timeout h s) ->
  forall r o, In (i, r) s -> NoDup (map fst s) -> rown r = Some o ->
  forall t, In (o, t) h -> t < now - timeout.
Proof. exact fresh_runner_not_selected_l. Qed.
Print Assumptions fresh_runner_not_selected.

(* The recovery run (pending: via PENDING_RECOVERY; running: via RUNNING_RECOVERY), started from ANY
   state — in particular one in which some scanned invocations have meanwhile been moved on by their
   owners (the lost races): every scanned invocation that still is in the scanned status ends
   REROUTED, unowned, and in the queue exactly once more; nothing outside the scanned ids changes. *)
Theorem recover_survives_lost_race : forall now via me, doc_recovery via = true ->
  forall ids w, NoDup ids ->
  let w' := recover_run recovery_tolerates_lost_race now via me ids w in
  (forall i r, In i ids -> rlookup i (rrecs w) = Some r -> rst r = source_of via ->
      rlookup i (rrecs w') = Some {| rst := REROUTED; rown := None; rts := now |} /\
      count_in i (rqueue w') = S (count_in i (rqueue w))) /\
  (forall j, ~ In j ids -> rlookup j (rrecs w') = rlookup j (rrecs w) /\
                            count_in j (rqueue w') = count_in j (rqueue w)).
Proof. exact recover_run_spec. Qed.
Print Assumptions recover_survives_lost_race.

(* "never steals live work" for child workers: the parent reports its live children's heartbeats on EVERY iteration of its
   loop (generated from BaseRunner.run), so their evidence of life is never older than one loop period, whatever the
   atomic-service gate; with the report behind the gate it can be (refuted). *)
Theorem live_child_heartbeat_is_fresh : forall loop_period gate_interval timeout : Z,
  (loop_period < timeout)%Z -> (child_hb_max_age child_heartbeats_every_iteration loop_period gate_interval < timeout)%Z.
Proof. exact live_child_fresh_l. Qed.
Print Assumptions live_child_heartbeat_is_fresh.
Theorem gated_child_heartbeats_refuted : exists loop_period gate_interval timeout : Z,
  (loop_period < timeout)%Z /\ ~ (child_hb_max_age false loop_period gate_interval < timeout)%Z.
Proof. exact gated_report_stale. Qed.

(* why tolerance is needed: aborting on the first lost race strands what was already marked *)
Theorem abort_on_lost_race_refuted :
  exists ids w, NoDup ids /\
    let w' := recover_run false 100 PENDING_RECOVERY (Some 9%nat) ids w in
    exists i r, In i ids /\ rlookup i (rrecs w) = Some r /\ rst r = PENDING /\
                rlookup i (rrecs w') = Some {| rst := PENDING_RECOVERY; rown := None; rts := 100 |} /\
                count_in i (rqueue w') = 0%nat.
Proof. exact abort_strands. Qed.

Example c04_nonvacuous :
  let s := [(1%nat, {| rst := PENDING; rown := Some 5%nat; rts := 10 |});
            (2%nat, {| rst := PENDING; rown := Some 5%nat; rts := 11 |});
            (3%nat, {| rst := RUNNING; rown := Some 6%nat; rts := 0 |});
            (4%nat, {| rst := RUNNING; rown := Some 7%nat; rts := 0 |})] in
  pending_scan mem_pending_le 15 5 s = [1%nat] /\
  mem_running_scan mem_hb_ge 100 10 [(6%nat, 90); (8%nat, 99)] s = [4%nat].
Proof. vm_compute. split; reflexivity. Qed.

(* Props/C05.v — C05: a final status always comes with the matching result or exception.
   The worker's finishing sequence is instantiated with the call order generated from
   BaseOrchestrator.set_invocation_result / set_invocation_exception (gen/FinalFacts_gen.v). *)
From Coq Require Import List Bool Arith.
Import ListNotations.
From PV Require Import Model.Status Model.Lifecycle Model.Final gen.FinalFacts_gen
  Proofs.StatusProofs Proofs.FinalProofs.

(* Any number of workers (zombie executions after kills / recoveries included), any external status
   changes, readers at any moment, any interleaving: whenever a reader observes SUCCESS the result
   store already holds the value of a COMPLETED execution of that invocation's body; whenever it
   observes FAILED the exception store holds the exception a completed body raised. *)
Theorem final_status_has_outcome : forall ops0 l, fresh_start ops0 ->
  let w := frun2 result_before_success exception_before_failed outcome_stores_independent (fworld_of ops0) l in
  Forall (obs_ok (fcompleted w)) (fobs w).
Proof. exact observations_ok2. Qed.
Print Assumptions final_status_has_outcome.

(* the reader of the model looks at the stores on every read: get_final_result returns what the state backend holds, not a
   value remembered by the invocation handle (generated from DistributedInvocation.get_final_result) *)
Theorem reader_reads_the_stores : final_result_read_from_store = true.
Proof. exact eq_refl. Qed.

(* a store that deletes the other kind of outcome lets a zombie wipe the outcome of an already final invocation *)
Theorem dependent_outcome_stores_refuted :
  exists l, let w := frun2 true true false (fworld_of [ORegister 0 None; OSet 0 PENDING (Some 1)]) l in
            exists o, In o (fobs w) /\ ostatus o = Some FAILED /\ oexc o = None.
Proof. exact dependent_stores_refuted. Qed.

(* ... and what get_final_result makes of such an observation *)
Theorem success_implies_result_of_completed_body : forall c o, obs_ok c o ->
  (ostatus o = Some SUCCESS ->
     exists v, get_final_result final_result_checks_final o = FValue v /\ In (oinv o, Ok v) c) /\
  (ostatus o = Some FAILED ->
     exists e, get_final_result final_result_checks_final o = FRaise e /\ In (oinv o, Err e) c).
Proof. exact final_result_matches. Qed.
Print Assumptions success_implies_result_of_completed_body.

Theorem nonfinal_yields_nothing : forall o s, ostatus o = Some s -> doc_final s = false ->
  get_final_result final_result_checks_final o = FNotFinal.
Proof. exact nonfinal_no_value. Qed.
Print Assumptions nonfinal_yields_nothing.

(* the order matters: publishing first lets a reader see SUCCESS with no result *)
Theorem publish_before_store_refuted :
  exists l, let w := frun false false (fworld_of [ORegister 0 None; OSet 0 PENDING (Some 1)]) l in
            exists o, In o (fobs w) /\ ostatus o = Some SUCCESS /\ ores o = None.
Proof. exact publish_first_refuted. Qed.

Example c05_nonvacuous :
  let w := frun result_before_success exception_before_failed
             (fworld_of [ORegister 0 None; OSet 0 PENDING (Some 1)])
             [FSpawn 0 1 (Ok 42); FAdv 0; FAdv 0; FRead 0; FAdv 0; FRead 0; FAdv 0; FRead 0] in
  map (fun o => (ostatus o, ores o)) (fobs w)
  = [(Some SUCCESS, Some 42); (Some RUNNING, Some 42); (Some RUNNING, None)].
Proof. vm_compute. reflexivity. Qed.

(* Props/C07.v — C07: registration concurrency collapses duplicate submissions onto one invocation.
   The machine is instantiated with the facts generated from base_orchestrator.py (gen/ConcFacts_gen.v). *)
From Coq Require Import List Bool Arith.
Import ListNotations.
From PV Require Import Model.Status Model.ConcControl gen.ConcFacts_gen Proofs.ConcControlProofs.

(* Every history of submissions (single and batch path), polls, starts, finishes, retries and kills —
   any tasks, any modes, any key-argument choices: two distinct REGISTERED invocations of a task with
   registration concurrency enabled never have the same registration key. *)
Theorem at_most_one_registered_per_key : forall cfg arity ops, Forall (wf_op arity) ops ->
  let s := cexec cfg batch_path_indexes_args single_path_indexes_args gen_reg_sts gen_cand_sts gen_auth_sts cstate0 ops in
  forall i j, In i (invs s) -> In j (invs s) -> cid i <> cid j -> ctask i = ctask j ->
    mode_on (reg_mode (cfg (ctask i))) = true -> cst i = REGISTERED -> cst j = REGISTERED ->
    key_of (reg_mode (cfg (ctask i))) (cargs i) <> key_of (reg_mode (cfg (ctask i))) (cargs j).
Proof. exact (fun cfg arity => reg_unique cfg arity batch_path_indexes_args). Qed.
Print Assumptions at_most_one_registered_per_key.

(* a submission that finds a REGISTERED match returns it (or raises, with KEYS + the raise option and
   different other arguments) and changes nothing *)
Theorem reuse_returns_existing : forall cfg s t args e l,
  mode_on (reg_mode (cfg t)) = true -> existing s (reg_mode (cfg t)) t args gen_reg_sts = e :: l ->
  cstep cfg batch_path_indexes_args single_path_indexes_args gen_reg_sts gen_cand_sts gen_auth_sts s (OSubmit t args) =
    (s, if list_eqb (cargs e) args then CReused (cid e)
        else if reg_raise (cfg t) then CRaised else CReused (cid e)).
Proof. exact (fun cfg => reuse_spec cfg batch_path_indexes_args). Qed.
Print Assumptions reuse_returns_existing.

(* with registration concurrency disabled every submission creates a fresh, distinct invocation *)
Theorem disabled_always_new : forall cfg s t args, reg_mode (cfg t) = MDisabled ->
  snd (cstep cfg batch_path_indexes_args single_path_indexes_args gen_reg_sts gen_cand_sts gen_auth_sts s (OSubmit t args)) = CNew (next_id s) /\
  next_id (fst (cstep cfg batch_path_indexes_args single_path_indexes_args gen_reg_sts gen_cand_sts gen_auth_sts s (OSubmit t args))) = S (next_id s).
Proof. exact (fun cfg => disabled_new cfg batch_path_indexes_args). Qed.
Print Assumptions disabled_always_new.

Example c07_nonvacuous :
  let cfg := fun _ => {| reg_mode := MKeys [0]; reg_raise := true; run_mode := MDisabled; run_reroute := false |} in
  snd (crun cfg batch_path_indexes_args single_path_indexes_args gen_reg_sts gen_cand_sts gen_auth_sts cstate0
         [OSubmit 0 [1; 5]; OSubmit 0 [1; 5]; OSubmit 0 [1; 6]; OSubmit 0 [2; 6]; OPoll 9; OSubmit 0 [1; 6]])
  = [CNew 0; CReused 0; CRaised; CNew 1; CClaimed 0; CNew 2].
Proof. vm_compute. reflexivity. Qed.

(* Props/C16.v — C16: the in-memory and the SQLite backends are observationally equivalent, and both agree
   with a reference model.  Statements only; every proof is `exact <lemma of Proofs/BackendProofs.v>`.

   Model/BackendIndex.v  = index model   (Mem* classes: record dict + incrementally maintained indexes)
   Model/BackendRel.v    = relational model (SQLite* classes: rows + query filters) = the reference model
   Model/BackendGuard.v  = the domain of the theorem (`all_ok`), evaluated along the reference execution *)
From Coq Require Import List Bool Arith ZArith.
Import ListNotations.
From PV Require Import Model.Status Model.Blocking Model.Recovery Model.BackendOps Model.BackendRel
  Model.BackendIndex Model.BackendGuard Proofs.BackendProofs.
Local Open Scope nat_scope.

(* For EVERY universe, configuration and operation sequence (any length) inside the domain, every operation
   gets the same answer from the index model and from the relational model: return values (unordered ones as
   sorted sets), error classes, and every later observation (queries are operations of the sequence). *)
Theorem index_refines_relational : forall u c ops,
  all_ok u c doc_transition [] rel0 ops = true ->
  idx_run u c doc_transition idx0 ops = rel_run u c doc_transition rel0 ops.
Proof. exact index_refines_relational_l. Qed.
Print Assumptions index_refines_relational.

(* ... and along the way the indexes are exactly the images of the record table (status / task / call /
   argument index, retry dict, purge deque, the three structures of the wait graph), i.e. `Sim`. *)
Theorem index_invariant : forall u c ops,
  all_ok u c doc_transition [] rel0 ops = true ->
  exists ever fin, Sim u ever fin (idx_exec u c doc_transition idx0 ops) (rel_exec u c doc_transition rel0 ops).
Proof. exact index_invariant_l. Qed.
Print Assumptions index_invariant.

(* The same for any lifecycle step function that keeps the requested status and never leaves a final one. *)
Theorem index_refines_relational_any_lifecycle : forall u c trans,
  (forall r req rid s' o', trans (Some r) req rid = TOk s' o' -> s' = req) ->
  (forall r req rid s' o', doc_final (st r) = true -> trans (Some r) req rid <> TOk s' o') ->
  forall ops, all_ok u c trans [] rel0 ops = true ->
  idx_run u c trans idx0 ops = rel_run u c trans rel0 ops.
Proof. exact (fun u c trans H1 H2 ops Hok => proj1 (sim_run u c trans H1 H2 ops [] [] idx0 rel0 (Sim_init u c) Hok)). Qed.
Print Assumptions index_refines_relational_any_lifecycle.

(* The statement at full strength (no domain restriction) does NOT hold for the in-memory backend as
   transcribed from the current code.  One defect is left (known_findings.txt:
   mem-release-of-live-invocation-forgets-its-own-waits): MemBlockingControl.release_waiters(x) also forgets
   what x itself waits for.  It shows when x is released while still runnable (class 4) ... *)
Theorem release_of_live_invocation_refuted : diverges w_release_live.
Proof. exact release_live_diverges. Qed.
Print Assumptions release_of_live_invocation_refuted.

(* ... and when an invocation that finished while waiting is auto-purged, registered again and awaited (class 1). *)
Theorem reregistration_of_purged_waiter_refuted : diverges w_reregister_purged.
Proof. exact reregister_purged_diverges. Qed.
Print Assumptions reregistration_of_purged_waiter_refuted.

Theorem backends_equivalent_full_refuted : ~ backends_equivalent_full.
Proof. exact backends_equivalent_full_refuted_l. Qed.
Print Assumptions backends_equivalent_full_refuted.

Theorem witnesses_leave_the_domain_through_their_own_class :
  map (fun w => snd (first_bad U0 C0 doc_transition [3; 7] 0 [] rel0 w)) [w_release_live; w_reregister_purged] = [4; 1].
Proof. exact witness_classes. Qed.

(* non-vacuity: a sequence inside the domain with non-trivial answers (pending scan, running scan and the
   blocking query each report invocation 1 at the right moment; nothing blocks after it finished), which also
   contains the inputs of the repaired classes: re-registration keeps the retry count (1), a retry of an
   unknown id counts nothing (0), unknown awaited / filtered ids, a state-backend purge that clears workflow data *)
Example c16_nonvacuous :
  all_ok U0 C0 doc_transition [] rel0 w_inside = true /\
  map render (rel_run U0 C0 doc_transition rel0 w_inside) =
  map render (idx_run U0 C0 doc_transition idx0 w_inside) /\
  nth 8 (rel_run U0 C0 doc_transition rel0 w_inside) OOk = OIds [1] /\
  nth 11 (rel_run U0 C0 doc_transition rel0 w_inside) OOk = OIds [1] /\
  nth 4 (rel_run U0 C0 doc_transition rel0 w_inside) OOk = OIds [1] /\
  nth 14 (rel_run U0 C0 doc_transition rel0 w_inside) OOk = OIds [] /\
  nth 26 (rel_run U0 C0 doc_transition rel0 w_inside) OOk = ONat 1 /\
  nth 28 (rel_run U0 C0 doc_transition rel0 w_inside) OOk = ONat 0 /\
  nth 34 (rel_run U0 C0 doc_transition rel0 w_inside) OOk = OOpt None.
Proof. exact inside_example. Qed.

(* Props/C10.v — C10: the recorded history of an invocation is exactly its sequence of status changes.
   Built on the interleaved machine (atomicity facts from gen/Atomicity_gen.v) plus background history
   writers that may run arbitrarily late and in any order (gen/HistoryFacts_gen.v says every successful
   change is followed by exactly one add_history carrying the record the transition returned). *)
From Coq Require Import List Bool Arith Sorted.
Import ListNotations.
From PV Require Import Model.Status Model.Lifecycle Model.Conc Model.History gen.Atomicity_gen
  gen.HistoryFacts_gen Proofs.StatusProofs Proofs.ConcProofs Proofs.HistoryProofs.

(* the code shape the history machine assumes *)
Theorem history_written_per_successful_change :
  history_after_transition = true /\ history_uses_returned_record = true /\
  history_names_requester = true /\ registration_writes_history = true.
Proof. exact (conj eq_refl (conj eq_refl (conj eq_refl eq_refl))). Qed.

(* "once nothing is pending" is what the flush establishes: it joins, without a time limit, every writer that was ever tracked,
   and the tracking list only grows (generated from add_history / add_histories / wait_for_*_async_operations) *)
Theorem flush_waits_for_every_writer : history_writers_stay_tracked = true.
Proof. exact eq_refl. Qed.
Print Assumptions history_written_per_successful_change.

(* Once pending writes are flushed — whatever the interleaving of actors and writers, however late and
   in whatever order the writers ran — the stored history of i, ordered by the time of the change, IS
   the change log of i: nothing missing, nothing duplicated, nothing foreign.  (SQLite / in-memory) *)
Theorem history_exact_sqlite : forall ops0 l i,
  let w := hist_run sqlite_transition_immediate (hw_of ops0) l in
  hpend w = [] -> get_history w i = of_inv i (stamped (log (csys (hcw w)))).
Proof. exact (history_is_log true). Qed.
Print Assumptions history_exact_sqlite.

(* in-memory: the transition is atomic (lock facts) AND a writer's `self._history[i].append(e)` is one atomic call
   (mem_history_append_atomic); writers that read-extend-store are two steps each (HFlush = read, HStore = store) *)
Theorem history_exact_mem : forall ops0 l i,
  let w := hist_run2 mem_transition_atomic mem_history_append_atomic (hw2_of ops0) l in
  hpend (hbase w) = [] -> hinflight w = [] ->
  get_history (hbase w) i = of_inv i (stamped (log (csys (hcw (hbase w))))).
Proof. exact history_is_log_mem. Qed.
Print Assumptions history_exact_mem.

Theorem nonatomic_append_refuted :
  exists l, let w := hist_run2 true false (hw2_of [ORegister 0 None]) l in
            hpend (hbase w) = [] /\ hinflight w = [] /\
            map he_status (of_inv 0 (stamped (log (csys (hcw (hbase w)))))) = [RUNNING; PENDING; REGISTERED] /\
            map he_status (get_history (hbase w) 0) = [RUNNING; REGISTERED].
Proof. exact nonatomic_append_loses_entry. Qed.

(* ... it is a path of the documented graph from REGISTERED to the current status *)
Theorem history_is_path_to_current_status : forall ops0 l i,
  let w := hist_run sqlite_transition_immediate (hw_of ops0) l in
  hpend w = [] ->
  match lookup i (recs (csys (hcw w))) with
  | None => get_history w i = []
  | Some r => exists rest, map he_status (get_history w i) = st r :: rest /\ rpath (st r :: rest)
  end.
Proof. exact history_path. Qed.
Print Assumptions history_is_path_to_current_status.

(* ... strictly ordered by change time (no duplicates) and only this invocation's entries *)
Theorem no_duplicates_no_foreign_entries : forall ops0 l i,
  let w := hist_run sqlite_transition_immediate (hw_of ops0) l in
  hpend w = [] -> StronglySorted desc (get_history w i) /\ Forall (fun e => he_inv e = i) (get_history w i).
Proof. exact (history_nodup true). Qed.
Print Assumptions no_duplicates_no_foreign_entries.

(* a non-atomic transition shows up as a duplicated claim in the history *)
Theorem split_transition_history_refuted :
  exists l, let w := hist_run false (hw_of [ORegister 0 None]) l in
            hpend w = [] /\ map he_status (get_history w 0) = [PENDING; PENDING; REGISTERED].
Proof. exact split_history_duplicate. Qed.

Example c10_nonvacuous :
  let w := hist_run true (hw_of [ORegister 0 None; ORegister 1 None])
             [HAct (ATrans 1 0 PENDING (Some 1)); HAct (ATrans 1 0 RUNNING (Some 1)); HAct (ATrans 2 1 PENDING (Some 2));
              HFlush 2; HAct (ATrans 1 0 SUCCESS (Some 1)); HFlush 0; HFlush 1; HFlush 0] in
  hpend w = [] /\ map he_status (get_history w 0) = [SUCCESS; RUNNING; PENDING; REGISTERED].
Proof. vm_compute. split; reflexivity. Qed.

(* Props/C15.v — C15: arguments and results round-trip unchanged; call identity is canonical; the
   client data store is content-addressed.  Statements only; every proof is `exact <lemma>`.
   gen_enc, gen_keys, gen_bind, gen_cds, gen_json are regenerated from /repo on every run. *)
From Coq Require Import List NArith Bool Permutation.
Import ListNotations.
From PV Require Import Model.ArgsId Model.Bind Model.CDS Model.JsonEnv gen.Roundtrip_gen
  Proofs.ArgsIdProofs Proofs.BindProofs Proofs.CDSProofs Proofs.JsonEnvProofs.
Open Scope N_scope.

(* ---------------- call identity ---------------- *)

(* The text compute_args_id feeds to the hash determines the argument MAP (up to the order the
   arguments were written in): no two different maps share a text, whatever separators, quotes,
   backslashes or control characters the names and serialized values contain. *)
Theorem args_id_encoding_injective : forall m1 m2, NoDup (map fst m1) ->
  encode gen_enc m1 = encode gen_enc m2 -> Permutation m1 m2.
Proof. exact (encode_injective gen_enc eq_refl eq_refl eq_refl). Qed.
Print Assumptions args_id_encoding_injective.

Theorem args_id_order_independent : forall m1 m2, NoDup (map fst m1) ->
  Permutation m1 m2 -> encode gen_enc m1 = encode gen_enc m2.
Proof. exact (encode_order_independent gen_enc eq_refl). Qed.
Print Assumptions args_id_order_independent.

(* Two calls get the same identity exactly when task and serialized arguments are equal,
   independent of argument order - modulo a collision of the hash oracle H on the two texts. *)
Theorem call_id_iff : forall (H : str -> str), (forall x, H x <> empty_id gen_enc) ->
  forall t1 t2 m1 m2, NoDup (map fst m1) -> no_collision gen_enc H m1 m2 ->
  (call_id gen_enc H t1 m1 = call_id gen_enc H t2 m2 <-> t1 = t2 /\ Permutation m1 m2).
Proof. exact (call_id_iff gen_enc eq_refl eq_refl eq_refl). Qed.
Print Assumptions call_id_iff.

(* the collision oracle is the WHOLE SHA-256 hex digest, for the args id and for the reference key *)
Theorem digests_are_untruncated : gen_args_hash_full = true /\ gen_key_hash_full = true.
Proof. exact (conj eq_refl eq_refl). Qed.
Print Assumptions digests_are_untruncated.

(* ... and it is fed the WHOLE quoted text of every key and value: `encode gen_enc` is the text that is
   hashed, not a prefix or slice of it (two long inline values that differ late must get two ids) *)
Theorem args_id_hashes_whole_text : gen_args_text_whole = true.
Proof. exact eq_refl. Qed.
Print Assumptions args_id_hashes_whole_text.

(* the quoting is necessary: with raw key/value text, separators inside a value forge an item *)
Theorem unquoted_encoding_refuted : forall c, quote_key c = false -> quote_val c = false -> sort_keys c = true ->
  kv_sep c = [61] -> item_sep c = [59] ->
  exists m1 m2, NoDup (map fst m1) /\ NoDup (map fst m2) /\ encode c m1 = encode c m2 /\ ~ Permutation m1 m2.
Proof. exact unquoted_not_injective. Qed.
Print Assumptions unquoted_encoding_refuted.

(* positional / keyword / defaults-omitted spellings of one call bind to the same argument map *)
Theorem bind_canonical : forall sig args pos1 kws1 pos2 kws2,
  kws_ok sig kws1 -> kws_ok sig kws2 -> spelled sig args pos1 kws1 -> spelled sig args pos2 kws2 ->
  bind gen_bind sig pos1 kws1 = bind gen_bind sig pos2 kws2 /\
  bind gen_bind sig pos1 kws1 = Some (combine (map pname sig) args).
Proof. exact (fun sig args p1 k1 p2 k2 => bind_canonical gen_bind sig args p1 k1 p2 k2 eq_refl). Qed.
Print Assumptions bind_canonical.

Theorem bind_sound : forall sig pos kws m, bind_go gen_bind sig pos kws = Some m ->
  map fst m = map pname sig /\ spelled sig (map snd m) pos kws.
Proof. exact (fun sig pos kws m => bind_go_sound gen_bind sig pos kws m eq_refl). Qed.
Print Assumptions bind_sound.

Theorem bind_without_defaults_refuted : forall c, apply_defaults c = false ->
  exists sig args pos1 kws1 pos2 kws2,
    kws_ok sig kws1 /\ kws_ok sig kws2 /\ spelled sig args pos1 kws1 /\ spelled sig args pos2 kws2 /\
    bind c sig pos1 kws1 <> bind c sig pos2 kws2.
Proof. exact bind_without_defaults_refuted. Qed.
Print Assumptions bind_without_defaults_refuted.

(* CallId.key / from_key and TaskId.key / from_key invert each other under the stated guards *)
Theorem key_roundtrip : forall m f a, m <> [] -> f <> [] -> ~ In (task_sep gen_keys) f -> ~ In (call_sep gen_keys) a ->
  task_from_key gen_keys (task_key gen_keys (m, f)) = Some (m, f) /\
  call_from_key gen_keys (call_key gen_keys ((m, f), a)) = Some ((m, f), a).
Proof. exact (fun m f a Hm Hf Hnf Hna => conj (task_key_roundtrip gen_keys m f Hm Hf Hnf) (call_key_roundtrip gen_keys m f a Hm Hf Hnf Hna)). Qed.
Print Assumptions key_roundtrip.

Theorem call_key_injective : forall c1 c2,
  fst (fst c1) <> [] -> snd (fst c1) <> [] -> ~ In (task_sep gen_keys) (snd (fst c1)) -> ~ In (call_sep gen_keys) (snd c1) ->
  fst (fst c2) <> [] -> snd (fst c2) <> [] -> ~ In (task_sep gen_keys) (snd (fst c2)) -> ~ In (call_sep gen_keys) (snd c2) ->
  call_key gen_keys c1 = call_key gen_keys c2 -> c1 = c2.
Proof. exact (call_key_injective gen_keys). Qed.
Print Assumptions call_key_injective.

Theorem key_roundtrip_dot_refuted : forall k, task_sep k = 46 -> task_rejects_empty k = true ->
  exists m f, m <> [] /\ f <> [] /\ task_from_key k (task_key k (m, f)) <> Some (m, f).
Proof. exact task_key_dot_refuted. Qed.
Print Assumptions key_roundtrip_dot_refuted.

(* ---------------- client data store ---------------- *)

(* Full statement: for EVERY trace (serialisations, resolutions here and on other instances, in-place
   mutations of live objects, purges by this or another instance BEFORE; anything but a purge AFTER),
   the text serialize returned for v - inline or reference - resolves to v, on this instance and on
   every other instance over the same backend (the worker side). *)
Definition cds_roundtrip_full : Prop :=
  forall (V : Type) (ser : V -> str) (deser : str -> V) (as_ref : V -> option str) (H : str -> str)
         (c : cds_conf) (T : str -> Prop),
  (forall s1 s2, T s1 -> T s2 -> H s1 = H s2 -> s1 = s2) -> (forall v, deser (ser v) = v) ->
  (forall v, is_ref gen_cds (ser v) = false) ->
  forall ops1 ops2 v dis s2 d,
  texts_in V ser T ops1 -> texts_in V ser T ops2 -> no_purge V ops2 -> T (ser v) ->
  (ref_passthrough gen_cds = true -> disabled c || dis = false -> as_ref v = None) ->
  serialize V ser as_ref H gen_cds c (run V ser deser as_ref H gen_cds c (st0 V) ops1) v dis = (s2, d) ->
  (exists s4 a, resolve V deser gen_cds c (run V ser deser as_ref H gen_cds c s2 ops2) d = (s4, Some a)
                /\ lookupA a (heap s4) = Some v) /\
  (exists s4 a, resolve_cold V deser gen_cds (run V ser deser as_ref H gen_cds c s2 ops2) d = (s4, Some a)
                /\ lookupA a (heap s4) = Some v).

(* the structural fact the round trip rests on: _maybe_store writes the backend row on EVERY
   externalisation (no process-local "already stored" shortcut, which a purge makes stale) *)
Theorem cds_store_write_unconditional : store_skip_known gen_cds = false.
Proof. exact eq_refl. Qed.
Print Assumptions cds_store_write_unconditional.

(* Proved part: the same, for every store state, threshold, disable flag, under the guards
   (i) no collision of H on the contents that occur, (ii) the serializer text layer round-trips and
   never emits the reserved prefix, (iii) v is not itself a reference-like string, and
   (iv) `quiet`: the LRU holds serialized text, OR no live object is mutated in place. *)
Theorem cds_roundtrip_partial :
  forall (V : Type) (ser : V -> str) (deser : str -> V) (as_ref : V -> option str) (H : str -> str)
         (c : cds_conf) (T : str -> Prop),
  (forall s1 s2, T s1 -> T s2 -> H s1 = H s2 -> s1 = s2) -> (forall v, deser (ser v) = v) ->
  (forall v, is_ref gen_cds (ser v) = false) ->
  forall ops1 ops2 v dis s2 d,
  quiet V gen_cds ops1 -> texts_in V ser T ops1 -> quiet V gen_cds ops2 -> texts_in V ser T ops2 ->
  no_purge V ops2 -> T (ser v) ->
  (ref_passthrough gen_cds = true -> disabled c || dis = false -> as_ref v = None) ->
  serialize V ser as_ref H gen_cds c (run V ser deser as_ref H gen_cds c (st0 V) ops1) v dis = (s2, d) ->
  (exists s4 a, resolve V deser gen_cds c (run V ser deser as_ref H gen_cds c s2 ops2) d = (s4, Some a)
                /\ lookupA a (heap s4) = Some v) /\
  (exists s4 a, resolve_cold V deser gen_cds (run V ser deser as_ref H gen_cds c s2 ops2) d = (s4, Some a)
                /\ lookupA a (heap s4) = Some v).
Proof. exact (fun V ser deser as_ref H c T Hc Hsd Hnr => resolve_serialize V ser deser as_ref H gen_cds c T Hc Hsd Hnr eq_refl). Qed.
Print Assumptions cds_roundtrip_partial.

(* the unconditional write is necessary: ANY facts record that skips the write for remembered keys is
   refuted by a purge of the backend by another instance ... *)
Theorem cds_skip_known_refuted : forall f, store_skip_known f = true -> stale_refuted f.
Proof. exact skip_known_refuted. Qed.
Print Assumptions cds_skip_known_refuted.

(* ... and, when purge() forgets the LRU and the backend but not the remembered keys, by the instance's
   own purge(): serialize v; purge(); serialize v again -> the reference does not resolve on a worker *)
Theorem cds_skip_known_own_purge_refuted : forall f, store_skip_known f = true -> purge_clears_known f = false ->
  exists v s2 d,
    serialize str idS noref idS f alias_conf (run str idS idS noref idS f alias_conf (st0 str) [OSer v false; OPurge]) v false = (s2, d) /\
    snd (resolve_cold str idS f s2 d) = None.
Proof. exact skip_known_own_purge_refuted. Qed.
Print Assumptions cds_skip_known_own_purge_refuted.

(* the no-purge guard on ops2 is necessary: purge() drops every reference created before it *)
Theorem cds_purge_drops_references : forall f,
  exists v s2 d,
    serialize str idS noref idS f alias_conf (st0 str) v false = (s2, d) /\
    snd (resolve str idS f alias_conf (run str idS idS noref idS f alias_conf s2 [OPurge]) d) = None.
Proof. exact purge_drops_references. Qed.
Print Assumptions cds_purge_drops_references.

(* What guard (iv) means on the CURRENT tree, decided by the generated fact: while the LRU keeps
   live Python objects the full statement is refuted by one in-place mutation; once it keeps the
   serialized text every trace is quiet and the partial theorem is the full one. *)
Theorem cds_alias_current_tree :
  if lru_holds_object gen_cds then alias_refuted gen_cds
  else (forall V (ops : list (op V)), quiet V gen_cds ops).
Proof. exact (alias_dichotomy gen_cds). Qed.
Print Assumptions cds_alias_current_tree.

Theorem cds_lru_of_objects_refuted : forall f, lru_holds_object f = true -> alias_refuted f.
Proof. exact lru_object_alias_refuted. Qed.
Print Assumptions cds_lru_of_objects_refuted.

(* content addressing: the reference is a function of the serialized content only (same content,
   same reference, whatever the store state) ... *)
Theorem cds_content_addressed :
  forall (V : Type) (ser : V -> str) (as_ref : V -> option str) (H : str -> str) (c : cds_conf) s1 s2 v1 v2,
  disabled c = false -> as_ref v1 = None -> as_ref v2 = None -> ser v1 = ser v2 ->
  snd (serialize V ser as_ref H gen_cds c s1 v1 false) = snd (serialize V ser as_ref H gen_cds c s2 v2 false).
Proof. exact (fun V ser as_ref H c => reference_of_content V ser as_ref H gen_cds c). Qed.
Print Assumptions cds_content_addressed.

(* ... and a value is externalised exactly when the size tests of _maybe_store say so *)
Theorem inline_iff_below_threshold :
  forall (V : Type) (ser : V -> str) (as_ref : V -> option str) (H : str -> str) (c : cds_conf),
  (forall v, is_ref gen_cds (ser v) = false) -> forall s v,
  disabled c = false -> (if ref_passthrough gen_cds then as_ref v else None) = None ->
  (is_ref gen_cds (snd (serialize V ser as_ref H gen_cds c s v false)) = true <-> route gen_cds c (slen (ser v)) = true).
Proof. exact (fun V ser as_ref H c => external_iff V ser as_ref H gen_cds c). Qed.
Print Assumptions inline_iff_below_threshold.

Theorem lru_bounded : forall (A : Type) cap k (x : A) l, 1 <= cap -> N.of_nat (length l) <= cap ->
  N.of_nat (length (lru_put cap k x l)) <= cap.
Proof. exact lru_put_bounded. Qed.
Print Assumptions lru_bounded.

(* guard (iii) is necessary while reference-like strings are passed through *)
Theorem reference_like_string_refuted : forall f, ref_passthrough f = true ->
  exists v s2 d,
    serialize str jquote (fun v => if starts_with (ref_prefix f) v then Some v else None) idS f alias_conf (st0 str) v false = (s2, d) /\
    snd (resolve str idS f alias_conf s2 d) = None.
Proof. exact reference_like_string_refuted. Qed.
Print Assumptions reference_like_string_refuted.

(* ---------------- JSON serializer, tree layer ---------------- *)

(* every value of the serializer's domain - atoms, strings, lists, string-keyed dicts, enum /
   builtin-exception / client-exception / JsonSerializable envelopes, nested to any depth -
   comes back unchanged, provided no user dict carries a reserved key *)
Theorem json_envelope_roundtrip : forall v, wf gen_json v = true ->
  reconstruct gen_json (preprocess gen_json v) = v.
Proof. exact (envelope_roundtrip gen_json eq_refl). Qed.
Print Assumptions json_envelope_roundtrip.

Theorem json_reserved_key_refuted : forall F, facts_ok F = true -> exists v, reconstruct F (preprocess F v) <> v.
Proof. exact reserved_key_refuted. Qed.
Print Assumptions json_reserved_key_refuted.

(* non-vacuity: adversarial separators in a value; permuted maps share the text; the key round trip *)
Example c15_nonvacuous :
  encode gen_enc [([98], [49; 59; 97; 61; 50]); ([97], [34; 92])]
    = [34;97;34; 61; 34;92;34;92;92;34; 59; 34;98;34; 61; 34;49;59;97;61;50;34; 59]
  /\ encode gen_enc [([97], [34; 92]); ([98], [49; 59; 97; 61; 50])] = encode gen_enc [([98], [49; 59; 97; 61; 50]); ([97], [34; 92])]
  /\ call_from_key gen_keys (call_key gen_keys (([109; 46; 110], [102]), [110; 111])) = Some (([109; 46; 110], [102]), [110; 111])
  /\ reconstruct gen_json (preprocess gen_json (PList [PEnv EEnum [109] [113] (JAtom 3); PDict [([107], PEnv EErr [86] [] (JList [JStr [120]]))]]))
     = PList [PEnv EEnum [109] [113] (JAtom 3); PDict [([107], PEnv EErr [86] [] (JList [JStr [120]]))]].
Proof. vm_compute. repeat split; reflexivity. Qed.

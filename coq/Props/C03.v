(* Props/C03.v — C03: no accepted invocation is lost when a process dies at any step.
   Model/Crash.v: one accepted invocation; a victim process V (polls, runs, retries, is concurrency-
   controlled, stops, runs the recovery tasks) that may die hard between any two backend effects, a
   survivor S that does the same things and never dies, a runner X that died long ago.  The effect
   sequences are GENERATED from the source (gen/CrashProgs_gen.v).
   reach s      : s is reached from the accepted invocation by ANY interleaving of V, S and at most one crash of V
   can_finish s : some crash-free continuation reaches a final status with the body completed at least once
                  (what "recovery + the surviving runner" can still achieve; its negation = stranded forever)
   explained s  : V died inside one of the listed windows, or a poll consumed the message and raised. *)
From Coq Require Import List Bool Arith.
Import ListNotations.
From PV Require Import Model.Status Model.Crash Model.CrashSpec gen.CrashProgs_gen Proofs.CrashProofs Model.Pool gen.PoolIds_gen.

(* The full statement — FALSE for this tree, see crash_windows_refuted. *)
Definition never_stranded : Prop := forall s, reach gstep s -> can_finish gstep s.

(* PARTIAL: at every instant of every interleaving, with the crash at ANY point, the invocation can still be
   finished by the survivor and the recovery tasks — unless the crash fell inside one of the listed windows
   (or a poll raised after consuming the message: the C06 finding). *)
Theorem never_stranded_partial : forall s, reach gstep s -> can_finish gstep s \/ explained s = true.
Proof. exact safe_or_explained. Qed.
Print Assumptions never_stranded_partial.

Theorem crash_outside_windows_recovers : forall s, reach gstep s ->
  lost s = false -> about_to_raise s = false -> in_window s = false -> can_finish gstep s.
Proof. exact crash_outside_windows_recovers. Qed.
Print Assumptions crash_outside_windows_recovers.

(* the fault-free executions: the invariant holds at every step when nothing crashes *)
Theorem fault_free_never_stranded : forall s, reach gstep s ->
  crashed_in s = None -> lost s = false -> about_to_raise s = false -> can_finish gstep s.
Proof. exact fault_free_safe. Qed.
Print Assumptions fault_free_never_stranded.

(* each listed window is a real hole: a reachable state in which V died there and NO crash-free continuation ever finishes *)
Theorem crash_windows_refuted : forall w, In w windows ->
  exists s, reach gstep s /\ ~ can_finish gstep s /\ lost s = false /\ about_to_raise s = false /\ crashed_in s = Some w.
Proof. exact each_window_strands_gen. Qed.
Print Assumptions crash_windows_refuted.

(* "stranded" is decided by the computed set: no appeal to excluded middle *)
Theorem stranded_decidable : forall s, reach gstep s -> can_finish gstep s \/ ~ can_finish gstep s.
Proof. exact can_finish_decidable. Qed.
Print Assumptions stranded_decidable.

(* "held by a runner whose death recovery will notice": in the machine a dead victim sends no more heartbeats, so the running-recovery
   role is enabled for what it left RUNNING.  For worker processes that evidence comes from their parent, keyed by runner id: a
   replacement worker must therefore never be tracked under the id of the worker it replaces (generated from the spawn code of
   the three process runners; C14 carries the pool machine and the refutation for recycled ids). *)
Theorem dead_worker_ids_are_never_reused : mtr_id_src = IdFresh /\ ppr_id_src = IdFresh /\ pr_id_src = IdFresh.
Proof. exact (conj eq_refl (conj eq_refl eq_refl)). Qed.

(* non-vacuity: a crash while RUNNING (the window recovery was built for) recovers; a crash right after the pop does not *)
Example c03_running_crash_recovers :
  let s := crun gstep cinit [LVStart RClaimRun; LVStep; LVStep; LCrash] in
  (cst s, cown s, cq s, valive s, crashed_in s) = (RUNNING, Some V, 0, false, Some (RClaimRun, 3)) /\
  finished (crun gstep s [LSStart RRecRunning; LSStep; LSStep; LSStep; LSStart RClaimRun; LSStep; LSStep; LSStep; LSStep; LSStep]) = true.
Proof. vm_compute. split; reflexivity. Qed.
Example c03_pop_crash_strands :
  let s := crun gstep cinit [LVStart RClaimRun; LCrash] in
  (cst s, cown s, cq s, valive s, crashed_in s) = (REGISTERED, None, 0, false, Some (RClaimRun, 1)) /\ in_window s = true.
Proof. vm_compute. split; reflexivity. Qed.

(* Props/C01.v — C01: the invocation lifecycle follows the documented state machine; finals
   are absorbing.  Statements only; every proof is `exact <lemma of Proofs/StatusProofs.v>`. *)
From Coq Require Import List Bool Arith.
Import ListNotations.
From PV Require Import Model.Status Model.StatusDef gen.StatusTable_gen Model.StatusImpl
  Model.Lifecycle Proofs.StatusProofs gen.Atomicity_gen.

(* The table generated from status.py:_CONFIG, run through the mirror of
   status_record_transition, IS the documented single step — for every current record (or
   none), every requested status and every requester. *)
Theorem gen_table_is_documented : forall cur req rid,
  impl_transition cur req rid = doc_transition cur req rid.
Proof. exact impl_is_doc. Qed.
Print Assumptions gen_table_is_documented.

Theorem gen_flags_are_documented : forall s,
  is_final (gen_def (Some s)) = doc_final s /\
  available_for_run (gen_def (Some s)) = doc_available s /\
  requires_ownership (gen_def (Some s)) = doc_owned s /\
  acquires_ownership (gen_def (Some s)) = doc_acquires s /\
  releases_ownership (gen_def (Some s)) = negb (doc_owned s) /\
  overrides_ownership (gen_def (Some s)) = doc_recovery s.
Proof. exact gen_flags_documented. Qed.
Print Assumptions gen_flags_are_documented.

(* SUCCESS, FAILED, CONCURRENCY_CONTROLLED_FINAL are never left. *)
Theorem finals_absorbing : forall r req rid,
  doc_final (st r) = true -> impl_transition (Some r) req rid = TErr ETransition.
Proof. intros r req rid H; rewrite impl_is_doc; exact (doc_finals_absorbing r req rid H). Qed.
Print Assumptions finals_absorbing.

(* A successful change follows an edge of the documented graph. *)
Theorem success_follows_edge : forall r req rid s' o',
  impl_transition (Some r) req rid = TOk s' o' -> s' = req /\ doc_edge (st r) req = true.
Proof. exact impl_edge_respecting. Qed.
Print Assumptions success_follows_edge.

(* Owned statuses only move on their owner's request, the two recovery statuses excepted. *)
Theorem ownership_enforced : forall r req rid,
  doc_owned (st r) = true -> rid <> owner r -> doc_recovery req = false ->
  exists e, impl_transition (Some r) req rid = TErr e.
Proof. intros r req rid; rewrite impl_is_doc; exact (doc_ownership_enforced r req rid). Qed.
Print Assumptions ownership_enforced.

Theorem recovery_bypasses_ownership : forall r req rid,
  doc_edge (st r) req = true -> doc_recovery req = true ->
  impl_transition (Some r) req rid = TOk req None.
Proof. intros r req rid; rewrite impl_is_doc; exact (doc_recovery_bypasses r req rid). Qed.
Print Assumptions recovery_bypasses_ownership.

(* Owner after a successful change: PENDING -> requester, owned -> kept, else none. *)
Theorem owner_after : forall r req rid s' o',
  impl_transition (Some r) req rid = TOk s' o' -> o' = doc_owner_after r req rid.
Proof. intros r req rid s' o'; rewrite impl_is_doc; exact (doc_owner_after_ok r req rid s' o'). Qed.
Print Assumptions owner_after.

(* A refused request (status error or unknown id) leaves the whole system as it was. *)
Theorem error_leaves_record : forall s i to rid e s',
  step impl_transition s (OSet i to rid) = (s', OutErr e) -> s' = s.
Proof. exact (step_error_unchanged impl_transition). Qed.
Print Assumptions error_leaves_record.

(* For EVERY operation sequence from the empty system, the successful changes of each
   invocation form a path of the documented graph that starts at REGISTERED and ends at its
   current status (most recent first). *)
Theorem observed_sequence_is_path : forall ops i,
  match lookup i (recs (exec impl_transition sys0 ops)) with
  | None => hist i (log (exec impl_transition sys0 ops)) = []
  | Some r => exists rest, hist i (log (exec impl_transition sys0 ops)) = st r :: rest
                           /\ rpath (st r :: rest)
  end.
Proof. exact (fun ops => HistInv_exec impl_transition impl_edge_respecting ops sys0 HistInv_init). Qed.
Print Assumptions observed_sequence_is_path.

(* ... and in such a path a final status is never followed by anything. *)
Theorem finals_never_left_in_history : forall l b,
  rpath (b :: l) -> forallb (fun a => negb (doc_final a)) l = true.
Proof. exact rpath_no_final_inside. Qed.
Print Assumptions finals_never_left_in_history.

(* The operations of the sequences above are the orchestrators' status changes, each ONE step: the read of the current record, its
   validation and the write are not separable by another requester (generated from the two _atomic_status_transition methods:
   one BEGIN IMMEDIATE transaction; one critical section of a per-invocation lock that is obtained atomically and never
   retired).  With a separable read / write two requesters are validated against the same record and both written: the
   observed sequence then contains a non-edge (C02 carries the interleaved machine and the refutation). *)
Theorem each_status_change_is_one_step : sqlite_transition_immediate = true /\ mem_transition_atomic = true.
Proof. exact (conj eq_refl eq_refl). Qed.

(* non-vacuity: a concrete run reaches a final status through RETRY and a second claim *)
Example c01_nonvacuous :
  let ops := [ORegister 1 None; OSet 1 PENDING (Some 7); OSet 1 RUNNING (Some 7);
              OSet 1 RETRY (Some 7); OSet 1 PENDING (Some 8); OSet 1 RUNNING (Some 8);
              OSet 1 SUCCESS (Some 8); OSet 1 RUNNING (Some 8)] in
  hist 1 (log (exec impl_transition sys0 ops))
  = [SUCCESS; RUNNING; PENDING; RETRY; RUNNING; PENDING; REGISTERED].
Proof. vm_compute. reflexivity. Qed.

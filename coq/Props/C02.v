(* Props/C02.v — C02: an invocation is held by at most one runner at a time under any interleaving.
   The interleaved machine is instantiated with the atomicity facts generated from the two
   orchestrators (gen/Atomicity_gen.v): deleting BEGIN IMMEDIATE, moving the write out of the lock, or
   a racy lock table flips a fact and the theorems below no longer type-check. *)
From Coq Require Import List Bool Arith.
Import ListNotations.
From PV Require Import Model.Status Model.Lifecycle Model.Conc gen.Atomicity_gen
  Proofs.StatusProofs Proofs.ConcProofs.

(* Every reachable world of N actors issuing arbitrary requests in an arbitrary interleaving:
   (a) each invocation's successful changes are a documented path from REGISTERED,
   (b) no two successful claims read the same version of a record (never two runners from the same
       available state),
   (c) nothing is half-done.  SQLite backend: *)
Theorem sqlite_claims_exclusive : forall ops0 steps,
  let w := conc_run sqlite_transition_immediate (cw_of ops0) steps in
  HistInv (csys w) /\ NoDup (claims w).
Proof. exact conc_exclusive. Qed.
Print Assumptions sqlite_claims_exclusive.

(* in-memory backend (per-invocation lock held around read-validate-write AND a race-free lock table) *)
Theorem mem_claims_exclusive : forall ops0 steps,
  let w := conc_run mem_transition_atomic (cw_of ops0) steps in
  HistInv (csys w) /\ NoDup (claims w).
Proof. exact conc_exclusive. Qed.
Print Assumptions mem_claims_exclusive.

(* between two successful claims there is a release: a claim is only possible from an available,
   un-owned status *)
Theorem claims_alternate_with_releases : forall a rest,
  rpath (PENDING :: a :: rest) -> doc_available a = true /\ doc_owned a = false.
Proof. exact rpath_claim_follows_release. Qed.
Print Assumptions claims_alternate_with_releases.

(* while PENDING / RUNNING (/PAUSED/RESUMED) only the owner moves it, recovery excepted *)
Theorem owner_only_moves : forall r req rid,
  doc_owned (st r) = true -> rid <> owner r -> doc_recovery req = false ->
  exists e, doc_transition (Some r) req rid = TErr e.
Proof. exact doc_ownership_enforced. Qed.
Print Assumptions owner_only_moves.

(* a claim always installs its requester as the holder *)
Theorem claim_installs_holder : forall cur rid s' o',
  doc_transition cur PENDING rid = TOk s' o' -> exists x, rid = Some x /\ o' = Some x.
Proof. exact doc_pending_has_owner. Qed.
Print Assumptions claim_installs_holder.

(* the body of one invocation is entered (RUNNING) twice only if a KILLED, RETRY or RUNNING_RECOVERY
   entry lies in between — RETRY is written by the worker itself after its body ended, so two bodies
   can overlap only after a kill or a recovery *)
Theorem bodies_overlap_only_after_kill_or_recovery : forall mid rest,
  rpath (RUNNING :: mid ++ RUNNING :: rest) -> existsb zone_exit mid = true.
Proof. exact two_runs_need_exit. Qed.
Print Assumptions bodies_overlap_only_after_kill_or_recovery.

(* why atomicity is needed: with read and write split, two runners both claim REGISTERED *)
Theorem split_transition_refuted :
  exists steps, let w := conc_run false (cw_of [ORegister 0 None]) steps in
                ~ NoDup (claims w) /\ hist 0 (log (csys w)) = [PENDING; PENDING; REGISTERED].
Proof. exact split_transition_two_claims. Qed.

Example c02_nonvacuous :
  let w := conc_run true (cw_of [ORegister 0 None; ORegister 1 None])
             [ATrans 1 0 PENDING (Some 1); ATrans 2 0 PENDING (Some 2); ATrans 2 1 PENDING (Some 2);
              ATrans 1 0 RUNNING (Some 1); ATrans 2 0 KILLED (Some 2); ATrans 1 0 RETRY (Some 1);
              ATrans 2 0 PENDING (Some 2)] in
  claims w = [(0, 6); (1, 2); (0, 1)] /\ hist 0 (log (csys w)) = [PENDING; RETRY; RUNNING; PENDING; REGISTERED].
Proof. vm_compute. split; reflexivity. Qed.

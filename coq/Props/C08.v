(* Props/C08.v — C08: the broker delivers each routed message exactly once, first in first out.
   All statements are about the models INSTANTIATED WITH THE GENERATED FACTS
   (gen/BrokerFacts_gen.v, regenerated from mem_broker.py / sqlite_broker.py on every run). *)
From Coq Require Import List Bool Arith.
Import ListNotations.
From PV Require Import Model.Broker gen.BrokerFacts_gen Proofs.BrokerProofs.

(* In-memory broker, every operation sequence (route, batch route, retrieve, count, purge; repeated
   ids allowed): since the last purge, delivered ++ queued = routed.  Hence every message is
   delivered at most once, in routing order, and none disappears. *)
Theorem exactly_once_fifo : forall ops,
  let g := fst (mem_grun mem_append_right mem_pop_left mghost0 ops) in
  gdeliv g ++ gq g = grouted g.
Proof. exact (fun ops => mem_grun_inv ops mghost0 eq_refl). Qed.
Print Assumptions exactly_once_fifo.

Theorem retrieve_is_head : forall g,
  snd (mem_gstep mem_append_right mem_pop_left g BRetrieve) = BMsg (hd_error (gq g)).
Proof. exact mem_retrieve_is_head. Qed.
Print Assumptions retrieve_is_head.

Theorem empty_yields_none : forall g, gq g = [] ->
  snd (mem_gstep mem_append_right mem_pop_left g BRetrieve) = BMsg None.
Proof. intros g H; rewrite mem_retrieve_is_head, H; reflexivity. Qed.
Print Assumptions empty_yields_none.

Theorem count_is_routed_minus_retrieved : forall ops,
  let g := fst (mem_grun mem_append_right mem_pop_left mghost0 ops) in
  snd (mem_gstep mem_append_right mem_pop_left g BCount) = BNum (length (grouted g) - length (gdeliv g)).
Proof. exact (fun ops => mem_count_is_routed_minus_retrieved _ (mem_grun_inv ops mghost0 eq_refl)). Qed.
Print Assumptions count_is_routed_minus_retrieved.

(* SQLite broker: for every sequence of operations at non-decreasing clock readings (bursts within
   one reading included) every return value equals the in-memory broker's. *)
Theorem sqlite_refines_fifo : forall tops,
  snd (sql_run sqlite_order_asc sq0 0 tops) = snd (mem_run mem_append_right mem_pop_left [] (map snd tops)).
Proof. exact (fun tops => sql_run_refines tops sq0 0 [] SqlInv_init). Qed.
Print Assumptions sqlite_refines_fifo.

(* Concurrent retrievers and routers on the SQLite broker, any number of actors, any interleaving
   of their statements: delivered (over all actors) ++ remaining = routed. *)
Theorem concurrent_retrievers_partition : forall steps,
  let w := conc_run sqlite_order_asc sqlite_retrieve_immediate cworld0 steps in
  map snd (delivered w) ++ map rmsg (rows (cq w)) = routed w.
Proof. exact (fun steps => proj2 (proj2 (conc_run_inv steps cworld0 ConcInv_init))). Qed.
Print Assumptions concurrent_retrievers_partition.

(* In-memory retrieve at source-line granularity (emptiness test, then pop): never raises, never
   duplicates, never loses. *)
Theorem mem_concurrent_retrievers : forall steps,
  let w := mem_conc_run mem_retrieve_guarded mworld0 steps in
  mraised w = 0 /\ map snd (mdeliv w) ++ mq w = mrouted w.
Proof. exact (fun steps => mem_conc_run_inv steps mworld0 (conj eq_refl eq_refl)). Qed.
Print Assumptions mem_concurrent_retrievers.

(* Each mechanism is necessary (the witnesses the check replays first when a fact flips). *)
Theorem split_retrieve_refuted :
  exists steps, let w := conc_run true false cworld0 steps in
                map snd (delivered w) ++ map rmsg (rows (cq w)) <> routed w.
Proof. exact split_retrieve_delivers_twice. Qed.
Theorem unguarded_pop_refuted : exists steps, mraised (mem_conc_run false mworld0 steps) <> 0.
Proof. exact unguarded_pop_raises. Qed.

Example c08_nonvacuous :
  snd (sql_run sqlite_order_asc sq0 0 [(0, BRouteMany [5; 5; 6]); (0, BRetrieve); (0, BCount); (3, BRetrieve);
                                        (0, BPurge); (0, BRetrieve)])
  = [BUnit; BMsg (Some 5); BNum 2; BMsg (Some 5); BUnit; BMsg None].
Proof. vm_compute. reflexivity. Qed.

(* Props/C09.v — C09: waiting on sub-tasks is tracked exactly and can never deadlock a runner. *)
From Coq Require Import List Bool Arith.
Import ListNotations.
From PV Require Import Model.Blocking Model.ThreadRunner gen.RunnerFacts_gen
  Proofs.BlockingProofs Proofs.ThreadRunnerProofs.

(* ---------------- part 1: the wait graph ---------------- *)

(* For every history of wait declarations and completions: the incrementally maintained in-memory
   structures (waiting_for / waited_by / _ready, modelled line by line) answer exactly the definition
   evaluated on the reference edge set — which is literally what the SQLite backend stores and
   queries: x is reported iff someone has declared to wait on x and x has not finished, x waits on
   nothing, and x is runnable.  (`runnable` is any predicate that is false for finished invocations.) *)
Theorem mem_ready_set_is_definition : forall ops, Forall wf_bop ops ->
  forall runnable, (forall x, In x (finished (brun bstate0 ops)) -> runnable x = false) ->
  forall x, mem_blocking runnable (bmem (brun bstate0 ops)) x = ref_blocking runnable (bref (brun bstate0 ops)) x.
Proof. exact mem_blocking_is_definition. Qed.
Print Assumptions mem_ready_set_is_definition.

(* when an invocation finishes, nothing is recorded as waiting on it any more (both backends) *)
Theorem released_has_no_waiters : forall s x,
  has_in (bref (bstep s (BFinish x))) x = false /\ has_in (Eb (bmem (bstep s (BFinish x)))) x = false.
Proof. exact finished_has_no_waiters. Qed.
Print Assumptions released_has_no_waiters.

(* up to the requested limit: only correct answers, exactly min(limit, #correct), no duplicates *)
Theorem limit_respected : forall cands ok n,
  (forall x, In x (answer cands ok n) -> In x cands /\ ok x = true) /\
  length (answer cands ok n) = Nat.min n (length (filter ok cands)) /\
  (NoDup cands -> NoDup (answer cands ok n)).
Proof. exact answer_spec. Qed.
Print Assumptions limit_respected.

(* ---------------- part 2: any finite tree of nested calls completes ---------------- *)
(* the runner model is instantiated with the generated facts: waiting threads do not count against
   the slots; blocking invocations are claimed first *)

(* the potential never increases ... *)
Theorem tree_measure_never_increases : forall prog slots s a,
  phi prog (step prog slots waiting_frees_slot blocking_first s a) <= phi prog s.
Proof. exact (fun prog slots => step_nonincreasing prog slots true true). Qed.
Print Assumptions tree_measure_never_increases.

(* ... and in every reachable state with an unfinished invocation some step strictly decreases it,
   for every forest (children called before they are awaited, ids in range) and EVERY slot count >= 1 *)
Theorem tree_progress : forall prog slots n,
  (forall i pc c, nth_error (prog i) pc = Some (Call c) -> i < c < n) ->
  (forall i pc cs c, nth_error (prog i) pc = Some (Wait cs) -> In c cs ->
     exists pc', pc' < pc /\ nth_error (prog i) pc' = Some (Call c)) ->
  forall s, RInv prog n s -> 1 <= slots -> (exists i, i < n /\ active s i = true) ->
  exists a, phi prog (step prog slots waiting_frees_slot blocking_first s a) < phi prog s.
Proof. exact (fun prog slots n => progress prog slots true n). Qed.
Print Assumptions tree_progress.

(* hence from every reachable state the forest runs to completion in at most phi steps *)
Theorem tree_completes : forall prog slots n,
  (forall i pc c, nth_error (prog i) pc = Some (Call c) -> i < c < n) ->
  (forall i pc cs c, nth_error (prog i) pc = Some (Wait cs) -> In c cs ->
     exists pc', pc' < pc /\ nth_error (prog i) pc' = Some (Call c)) ->
  forall k s, phi prog s <= k -> RInv prog n s -> 1 <= slots ->
  exists l, length l <= k /\ forall i, i < n -> active (run prog slots waiting_frees_slot blocking_first s l) i = false.
Proof. exact (fun prog slots n => completes prog slots true n). Qed.
Print Assumptions tree_completes.

Theorem reachable_states_satisfy_invariant : forall prog slots n,
  (forall i pc c, nth_error (prog i) pc = Some (Call c) -> i < c < n) ->
  forall roots l, NoDup roots -> (forall r, In r roots -> r < n) ->
  RInv prog n (run prog slots waiting_frees_slot blocking_first (init n roots) l).
Proof.
  exact (fun prog slots n Hc roots l Hnd Hr => run_inv prog slots true n Hc l _ (RInv_init prog n roots Hnd Hr)).
Qed.
Print Assumptions reachable_states_satisfy_invariant.

(* counting waiting threads against the slots deadlocks a single-slot runner on parent-waits-child *)
Theorem slots_not_released_refuted :
  let s := run prog_parent_child 1 false true (init 2 [0])
             [SLoop; SThread 0; SThread 0; SThread 0; SLoop; SThread 0; SLoop] in
  st_of s 1 = Registered /\ st_of s 0 = Running 1 true true /\
  (forall a, step prog_parent_child 1 false true s a = s).
Proof. exact no_slot_release_deadlocks. Qed.

Example c09_nonvacuous :
  let p := fun i => match i with 0 => [Call 1; Call 2; Wait [1; 2]] | 1 => [Call 3; Wait [3]] | _ => [] end in
  let s := run p 1 waiting_frees_slot blocking_first (init 4 [0])
             (concat (repeat [SLoop; SThread 0; SThread 1; SThread 2; SThread 3] 20)) in
  map (st_of s) [0; 1; 2; 3] = [Final; Final; Final; Final].
Proof. vm_compute. reflexivity. Qed.

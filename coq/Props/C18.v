(* Props/C18.v — C18: workflow operations replay deterministically and never mix between workflows.
   Statements only; every proof is `exact <lemma of Proofs/WorkflowProofs.v>`.

   gen_cfg is regenerated from workflow_context.py / workflow_deterministic.py / task.py on every
   run.  fixed_cfg = gen_cfg with the DeterministicExecutor kept per execution; cached_cfg = gen_cfg
   with the executor cached per Task object (what Task.wf + WorkflowContext._deterministic do when
   the finding below is present).  The full-strength statement is Model.Workflow.C18_statement. *)
From Coq Require Import List Bool Arith.
Import ListNotations.
From PV Require Import Model.Workflow gen.Workflow_gen Proofs.WorkflowProofs.

(* the generated facts are the ones the theorems need: seeds contain the workflow id, the sub-task record key
   contains the call identity, the replay branch of execute_task hands the recorded invocation back
   unconditionally, the value generators keep no state outside their own call, execute_task keeps no state
   outside the workflow data (no class-level / module-level container) *)
Theorem gen_seed_and_key_facts :
  c_seed_wf gen_cfg = true /\ c_task_key_call gen_cfg = true /\
  c_replay_uncond gen_cfg = true /\ c_gen_private gen_cfg = true /\ c_exec_private gen_cfg = true.
Proof. exact gen_facts_good. Qed.
Print Assumptions gen_seed_and_key_facts.

(* For EVERY event list (any number of executions, process images, task objects, workflows; any
   interleaving at helper-call granularity): the n-th random / time / uuid returned to two
   executions of the same workflow is the same value. *)
Theorem nth_value_stable : nth_value_stable_stmt fixed_cfg.
Proof. exact (proj1 fixed_cfg_satisfies). Qed.
Print Assumptions nth_value_stable.

(* A call is launched at most once per (workflow, call); every execution that asks for it gets an
   invocation launched for its own workflow and that call; all of them get the same one. *)
Theorem sub_task_once : sub_task_once_stmt fixed_cfg.
Proof. exact (proj1 (proj2 fixed_cfg_satisfies)). Qed.
Print Assumptions sub_task_once.

(* Values returned to executions of different workflows are different values, and a helper call
   leaves the workflow data of every other workflow untouched. *)
Theorem workflows_do_not_mix : no_mix_stmt fixed_cfg.
Proof. exact (proj2 (proj2 fixed_cfg_satisfies)). Qed.
Print Assumptions workflows_do_not_mix.

(* provenance: every returned value and every operation record was derived for its own workflow *)
Theorem returned_values_are_own : forall evs e w o v,
  wf_of (run fixed_cfg evs) e = Some w -> In (e, o, v) (outs (run fixed_cfg evs)) ->
  owned (run fixed_cfg evs) w v.
Proof.
  exact (values_owned_lemma fixed_cfg eq_refl (proj1 (proj2 (proj2 gen_facts_good)))
           (proj1 (proj2 (proj2 (proj2 gen_facts_good)))) (proj2 (proj2 (proj2 (proj2 gen_facts_good))))
           (proj1 gen_facts_good)).
Qed.
Print Assumptions returned_values_are_own.

Theorem records_are_own : forall evs w k n v,
  slookup (w, KOp k n) (store (run fixed_cfg evs)) = Some v -> owned (run fixed_cfg evs) w v.
Proof.
  exact (records_owned_lemma fixed_cfg eq_refl (proj1 (proj2 (proj2 gen_facts_good)))
           (proj1 (proj2 (proj2 (proj2 gen_facts_good)))) (proj2 (proj2 (proj2 (proj2 gen_facts_good))))
           (proj1 gen_facts_good)).
Qed.
Print Assumptions records_are_own.

(* C18 at full strength, for any configuration with these facts *)
Theorem c18_per_execution : forall c,
  c_scope c = PerExecution -> c_seed_wf c = true -> c_task_key_call c = true ->
  c_replay_uncond c = true -> c_gen_private c = true -> c_exec_private c = true -> C18_statement c.
Proof. exact per_execution_satisfies. Qed.
Print Assumptions c18_per_execution.

(* the executor cached per Task object violates every part (computed witnesses: a re-execution in
   the same process image; the same task run for a second workflow in the same image) *)
Theorem cached_executor_refuted :
  ~ nth_value_stable_stmt cached_cfg /\ ~ sub_task_once_stmt cached_cfg /\ ~ no_mix_stmt cached_cfg.
Proof. exact cached_cfg_refuted. Qed.
Print Assumptions cached_executor_refuted.

(* the executor kept in a container of the process keyed by the invocation id / the invocation object (which
   compares by id; also a weak container while an object of an earlier attempt is referenced): a re-execution
   in the same process image continues the counters (computed witness) *)
Theorem keyed_executor_cache_refuted : ~ nth_value_stable_stmt keyed_cfg.
Proof. exact keyed_executor_refuted. Qed.
Print Assumptions keyed_executor_cache_refuted.

(* execute_task behind a process-wide cache keyed by the call only: the second workflow making the identical
   call is handed the first workflow's invocation and nothing is launched for it (computed witness) *)
Theorem shared_subtask_cache_is_refuted : ~ sub_task_once_stmt subtask_cache_cfg /\ ~ no_mix_stmt subtask_cache_cfg.
Proof. exact shared_subtask_cache_refuted. Qed.
Print Assumptions shared_subtask_cache_is_refuted.

(* a replay branch of execute_task that depends on anything but the record (e.g. on the state of the recorded
   invocation) launches an identical call again once that state changes (computed witness: the recorded
   sub-invocation fails, the body is re-executed) *)
Theorem guarded_subtask_replay_refuted : ~ sub_task_once_stmt guarded_cfg.
Proof. exact guarded_replay_refuted. Qed.
Print Assumptions guarded_subtask_replay_refuted.

(* a value generator that goes through process-wide state hands a workflow the value prepared for another
   workflow of the same process image when it is pre-empted inside the helper call (computed witness) *)
Theorem shared_value_generator_refuted :
  ~ no_mix_stmt shared_gen_cfg /\
  ~ (forall evs e w o v, wf_of (run shared_gen_cfg evs) e = Some w ->
       In (e, o, v) (outs (run shared_gen_cfg evs)) -> owned (run shared_gen_cfg evs) w v).
Proof. exact shared_generator_refuted. Qed.
Print Assumptions shared_value_generator_refuted.

(* hence, with the generated seed/key facts, C18 holds exactly when the executor is per execution;
   in particular for the scope the current source implements *)
Theorem c18_iff_per_execution : forall s, C18_statement (with_scope gen_cfg s) <-> s = PerExecution.
Proof. exact statement_iff_per_execution. Qed.
Print Assumptions c18_iff_per_execution.

Theorem c18_current_source : C18_statement gen_cfg <-> c_scope gen_cfg = PerExecution.
Proof. exact current_source_iff. Qed.
Print Assumptions c18_current_source.

(* non-vacuity: retry after two operations, replay in another process image, interleaved with a
   second workflow, which is pre-empted inside a helper call, and with the failure of the recorded
   sub-invocation — the replay returns the recorded values and launches nothing new *)
Example c18_nonvacuous :
  let evs := [EBegin 0 0 0 1; EOp 0 (ODet Rnd); EBegin 1 0 0 2; EOp 0 (OExec 7); ESeed 1 Rnd; EChild 1 7;
              EOp 1 (ODet Rnd);
              EBegin 2 1 0 1; EOp 2 (ODet Rnd); EOp 1 (OExec 7); EOp 2 (OExec 7); EOp 2 (ODet Tim)] in
  map (fun x => snd x) (outs (run fixed_cfg evs))
    = [VRand 1 (1 + c_seq_offset gen_cfg); VInv 0; VRand 2 (1 + c_seq_offset gen_cfg);
       VRand 1 (1 + c_seq_offset gen_cfg); VInv 1; VInv 0; VTime 0 (1 + c_seq_offset gen_cfg)]
  /\ length (launches (run fixed_cfg evs)) = 2.
Proof. vm_compute. split; reflexivity. Qed.

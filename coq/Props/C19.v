(* Props/C19.v — C19: sync development mode and distributed execution give the same outcome; retry
   accounting.  Statements only; every proof is `exact <lemma of Proofs/SyncDistProofs.v>`.
   The interpreters run_sync / run_dist use the retry test, increment, re-queue, retriable-exception
   and direct-task facts GENERATED from the current source (gen/SyncDist_gen.v). *)
From Coq Require Import List Bool Arith.
Import ListNotations.
From PV Require Import gen.SyncDist_gen Model.SyncDist Proofs.SyncDistProofs.

(* The two retry tests read from conc_invocation.py and dist_invocation.py are both
   `counter >= max_retries`, each retry adds exactly one, and a retried invocation is re-queued. *)
Theorem generated_retry_facts :
  (forall n m, gen_sync_exhausted n m = Nat.leb m n) /\
  (forall n m, gen_dist_exhausted n m = Nat.leb m n) /\
  gen_sync_incr = 1 /\ gen_dist_incr = 1 /\ gen_dist_requeues = true /\
  (forall rf, gen_retriable rf 0 = true) /\
  (forall rf k, k <> 0 -> gen_retriable rf k = existsb (Nat.eqb k) rf).
Proof.
  exact (conj gen_sync_test (conj gen_dist_test (conj gen_sync_incr_one (conj gen_dist_incr_one
        (conj gen_dist_requeues_true (conj gen_retriable_retryerror gen_retriable_other)))))).
Qed.
Print Assumptions generated_retry_facts.

(* THE PROPERTY, full strength: for every program, same outcome and same number of body executions of
   every node (serialiser oracle = identity). *)
Definition c19_full_statement : Prop := c19_statement.

(* ... it is FALSE of the faithful model: sync mode is lazy (known finding lazy-sync:...). *)
Theorem c19_full_statement_refuted : ~ c19_full_statement.
Proof. exact c19_statement_refuted. Qed.
Print Assumptions c19_full_statement_refuted.

Theorem lazy_sync_refuted :
  (exists p i, out (run_dist id_tr p) = out (run_sync p) /\
               count i (log (run_sync p)) = 0 /\ count i (log (run_dist id_tr p)) = 1) /\
  (exists g i, req_prog g = false /\ out (run_dist id_tr g) = out (run_sync g) /\
               count i (log (run_sync g)) = 0 /\ count i (log (run_dist id_tr g)) = 1).
Proof. exact lazy_sync_witnesses. Qed.
Print Assumptions lazy_sync_refuted.

(* PARTIAL (the exact guard that excludes the finding): for EVERY program in which each launched
   invocation's result is requested (req_prog: no fire-and-forget call, no group member after a failing
   one), and a serialiser that returns exceptions unchanged, distributed execution and sync mode give
   the same outcome, the same body-execution count of every node, and the same num_retries. *)
Theorem sync_dist_same_outcome_partial : forall tr p,
  (forall e, tr e = e) -> req_prog p = true -> out (run_dist tr p) = out (run_sync p).
Proof. exact same_outcome_guarded. Qed.
Print Assumptions sync_dist_same_outcome_partial.

Theorem same_body_counts_partial : forall tr p,
  (forall e, tr e = e) -> req_prog p = true ->
  forall i, count i (log (run_dist tr p)) = count i (log (run_sync p)).
Proof. exact same_counts_guarded. Qed.
Print Assumptions same_body_counts_partial.

Theorem same_num_retries_partial : forall tr p,
  (forall e, tr e = e) -> req_prog p = true -> retries (run_dist tr p) = retries (run_sync p).
Proof. exact same_retries_guarded. Qed.
Print Assumptions same_num_retries_partial.

(* the serialiser law is necessary: with the serialiser measured on the unchanged tree (arguments of
   RetryError dropped) a guarded program has different outcomes (known finding exc-args-lost:...). *)
Theorem serializer_law_is_needed :
  exists tr p, req_prog p = true /\ out (run_dist tr p) <> out (run_sync p) /\
               log (run_dist tr p) = log (run_sync p).
Proof. exact serializer_law_needed. Qed.
Print Assumptions serializer_law_is_needed.

(* Retry accounting of one invocation, any body (sub-task calls included), both modes:
   every execution up to max_retries+1 raises a retriable exception  => exactly max_retries+1 executions,
     then it fails with a retriable exception, num_retries = max_retries;
   executions 1..k-1 raise retriable, execution k <= max_retries+1 returns v => k executions, value v;
   the first execution raises a non-retriable exception => one execution, that exception. *)
Theorem retry_counts_sync : forall h b,
  retry_accounting h (sync_stmts b) (sync_prog (Node h b)).
Proof. exact retry_accounting_sync. Qed.
Print Assumptions retry_counts_sync.

Theorem retry_counts_dist : forall tr h b,
  retry_accounting h (dist_stmts tr b) (dist_prog tr (Node h b)).
Proof. exact retry_accounting_dist. Qed.
Print Assumptions retry_counts_dist.

(* ... and as counts of the execution log for a body without sub-calls that keeps raising *)
Theorem keeps_raising_runs_max_retries_plus_one : forall i m rf e,
  gen_retriable rf (ekind e) = true ->
  let p := leaf i m rf [] (ABefore e) in
  out (run_sync p) = Exc e /\ count i (log (run_sync p)) = m + 1 /\ retries (run_sync p) = m /\
  forall tr, out (run_dist tr p) = Exc (tr e) /\ count i (log (run_dist tr p)) = m + 1 /\
             retries (run_dist tr p) = m.
Proof. exact leaf_keeps_raising. Qed.
Print Assumptions keeps_raising_runs_max_retries_plus_one.

(* A direct task returns the plain value of its invocation (it is `t(args).result`), and the
   parallel flavour is the aggregated group, in both modes. *)
Theorem direct_task_returns_value : forall tr p g,
  sync_stmt (SDirect p) = sync_stmt (SCall p) /\ dist_stmt tr (SDirect p) = dist_stmt tr (SCall p) /\
  sync_stmt (SDirectPar g) = sync_stmt (SGroup g) /\ dist_stmt tr (SDirectPar g) = dist_stmt tr (SGroup g).
Proof.
  exact (fun tr p g => conj (direct_is_call_sync p) (conj (direct_is_call_dist tr p)
        (conj (direct_par_is_group_sync g) (direct_par_is_group_dist tr g)))).
Qed.
Print Assumptions direct_task_returns_value.

(* Parallelized groups with a REPEATED argument set.  task.py distribute_calls (sync branch, read by the
   translator) makes every element of the list its own fresh invocation; so a member that occurs twice runs
   its body for each occurrence, in sync mode exactly as distributed - the guarded equivalence above needs
   this fact for its group case, and it is load-bearing: were the sync branch to hand the group the (result
   caching) invocation of the earlier identical element, [p; p] would run p once in sync mode, twice distributed
   with the same value. *)
Theorem generated_group_fact : gen_sync_group_own_invocations = true.
Proof. exact gen_group_own. Qed.
Print Assumptions generated_group_fact.

Theorem repeated_group_member_runs_per_element : forall tr p i,
  (succeeds p = true ->
   count i (snd (sync_stmt (SGroup (PCons p (PCons p PNil))))) = 2 * count i (log (sync_prog p))) /\
  count i (snd (dist_stmt tr (SGroup (PCons p (PCons p PNil))))) = 2 * count i (log (dist_prog tr p)).
Proof. exact (fun tr p i => conj (repeated_member_sync p i) (repeated_member_dist tr p i)). Qed.
Print Assumptions repeated_group_member_runs_per_element.

Theorem shared_group_invocation_refuted :
  gen_sync_group_own_invocations = false ->
  fst (sync_stmt g_repeated) = fst (dist_stmt id_tr g_repeated) /\
  count 2 (snd (sync_stmt g_repeated)) = 1 /\ count 2 (snd (dist_stmt id_tr g_repeated)) = 2.
Proof. exact sharing_breaks_counts. Qed.
Print Assumptions shared_group_invocation_refuted.

(* Options and parallelized lists (facts generated from app.py direct_task, task.py distribute_batch_calls and
   prepare_arguments).  The max_retries a direct task runs with is the one its decorator was given - explicit 0
   included, whatever the app-level value - so the retry accounting above speaks about the DECLARED option;
   the batches of a parallelized list reach every call (n calls, any batch size b > 0: all n routed; floor
   division would lose the trailing partial batch); each call receives its own parameters over a fresh copy of
   common_args (one dict updated in place would leak keys of earlier calls into later ones). *)
Theorem direct_task_runs_with_declared_options : forall app h d,
  gen_direct_option d app = d /\ direct_header app h = h.
Proof. exact (fun app h d => conj (direct_option_declared d app) (direct_header_declared app h)). Qed.
Print Assumptions direct_task_runs_with_declared_options.

Theorem batches_route_every_call : forall n b, 0 < b -> routed n b = n.
Proof. exact routed_all. Qed.
Print Assumptions batches_route_every_call.

Theorem floor_division_batches_refuted : Nat.min 7 (Nat.max 1 (Nat.div 7 3) * 3) = 6 /\ routed 7 3 = 7.
Proof. exact floor_batches_lose_the_tail. Qed.
Print Assumptions floor_division_batches_refuted.

Theorem each_call_receives_its_own_arguments : forall common calls,
  received_kwargs common calls = map (kw_update common) calls.
Proof. exact received_own_kwargs. Qed.
Print Assumptions each_call_receives_its_own_arguments.

Theorem shared_kwargs_dict_refuted :
  merged_calls false [(0, 2)] [(0, 2)] [[(1, 5)]; []] = [[(0, 2); (1, 5)]; [(0, 2); (1, 5)]] /\
  merged_calls true [(0, 2)] [(0, 2)] [[(1, 5)]; []] = [[(0, 2); (1, 5)]; [(0, 2)]].
Proof. exact in_place_update_leaks. Qed.
Print Assumptions shared_kwargs_dict_refuted.

(* The distributed retry bookkeeping is not atomic: as long as the generated fact says RETRY is published
   before the counter is incremented, the schedule "re-run before the increment lands" executes an
   always-raising body max_retries+2 times (known finding retry-race:stale-counter); with the increment
   first (proposed fix) the racy run IS the ordinary run. *)
Theorem retry_race_refuted :
  gen_retry_incr_before_publish = false ->
  let h := mkH 2 1 [] 1 [] (ABefore (mkExn 0 0)) in
  execs (dist_leaf_racy h) = maxr h + 2 /\ execs (dist_prog id_tr (Node h SNil)) = maxr h + 1.
Proof. exact stale_counter_overruns. Qed.
Print Assumptions retry_race_refuted.

Theorem retry_race_absent_when_increment_first :
  gen_retry_incr_before_publish = true ->
  forall tr h, dist_leaf_racy h = dist_prog tr (Node h SNil).
Proof. exact ordered_counter_is_exact. Qed.
Print Assumptions retry_race_absent_when_increment_first.

(* non-vacuity: a guarded program with a nested call that retries once, a group and a direct task *)
Example c19_nonvacuous :
  let child := leaf 2 1 [] [ABefore (mkExn 0 0)] AOk in
  let p := Node (mkH 1 1 [1] 5 [AAfter (mkExn 1 4)] AOk)
                (SCons (SCall child)
                (SCons (SGroup (PCons (leaf 3 0 [] [] AOk) (PCons (leaf 4 0 [] [] AOk) PNil)))
                (SCons (SDirect (leaf 5 0 [] [] AOk)) SNil))) in
  req_prog p = true /\ render (run_sync p) = [[0; 9; 0]; [1; 2; 2; 3; 4; 5; 1; 2; 2; 3; 4; 5]; [1; 2]]
  /\ render (run_dist id_tr p) = render (run_sync p).
Proof. vm_compute. repeat split; reflexivity. Qed.

(* Props/C20.v — C20: monitoring pages only observe; a GET never changes the system.
   Statements only; every proof is `exact <lemma of Proofs/MonitorProofs.v>`.
   gen_routes / gen_qv are regenerated from pynmon's source on every run. *)
From Coq Require Import String List Bool Arith ZArith Permutation.
Import ListNotations.
From PV Require Import Model.Monitor gen.Routes_gen gen.ReadImpl_gen Proofs.MonitorProofs.

(* Every API method the model classifies read-only is a function sys -> out: the whole system
   (queue order, status records, stored records, results, exceptions, histories, runner records,
   workflow runs, trigger store, client data) is returned untouched, for every state and argument. *)
Theorem read_ops_preserve_state : forall s c,
  read_only (c_api c) = true -> fst (prim s c) = s.
Proof. exact read_prim_state. Qed.
Print Assumptions read_ops_preserve_state.

(* ... and the classification is not generous: every other method changes some state. *)
Theorem non_read_ops_change_some_state : forall a, read_only a = false ->
  exists s c, c_api c = a /\ fst (prim s c) <> s.
Proof. exact mutator_changes_something. Qed.
Print Assumptions non_read_ops_change_some_state.

(* ANY handler that only calls read-only methods — whatever it branches on, however many calls
   it makes, whether it finally renders or fails — leaves the system exactly as it was. *)
Theorem handler_over_reads_preserves : forall p,
  uses (fun a => read_only a = true) p -> forall s, fst (run p s) = s.
Proof. exact run_reads_state. Qed.
Print Assumptions handler_over_reads_preserves.

(* The generated table: every GET route except the drain-and-requeue queue view reaches read-only
   methods only (unknown / dynamically dispatched calls count as mutating); the queue view reads
   and uses the three queue operations, nothing else; there is at most one such route. *)
Theorem get_routes_read_only : routes_ok gen_routes = true.
Proof. exact gen_routes_ok. Qed.
Print Assumptions get_routes_read_only.

(* Hence: for every generated GET route other than the queue view, every handler confined to the
   route's reachable methods preserves every state, rendered or failed. *)
Theorem get_routes_observe_only : forall r, In r gen_routes -> r_qv r = false ->
  forall p, uses (fun a => In a (r_reach r)) p -> forall s, fst (run p s) = s.
Proof. exact gen_get_routes_read_only. Qed.
Print Assumptions get_routes_observe_only.

Theorem queue_view_shape_matches_table : shape_matches_table = true.
Proof. exact gen_shape_matches_table. Qed.
Print Assumptions queue_view_shape_matches_table.

(* The queue view, for every shape the translator can produce: it gives back every state for all
   limits  iff  the shape is a restoring one (peek; or drain everything, re-route the popped ids,
   lookups outside the loop or guarded). *)
Theorem queue_view_restores_iff : forall sh,
  qv_restoring sh = true <-> (forall s limit, fst (qv_run sh limit s) = s).
Proof. exact restoring_iff. Qed.
Print Assumptions queue_view_restores_iff.

(* Full-strength statement for the generated queue view (kept as a Definition in
   Proofs/MonitorProofs.v):  queue_view_restores_stmt := forall s limit, fst (qv_run gen_qv limit s) = s.
   It is DECIDED on every run from the regenerated shape. *)
Theorem queue_view_decided :
  if qv_restoring gen_qv then queue_view_restores_stmt else ~ queue_view_restores_stmt.
Proof. exact gen_queue_view_decided. Qed.
Print Assumptions queue_view_decided.

(* C20 as a whole on the model, decided the same way. *)
Theorem c20_decided :
  if qv_restoring gen_qv then all_get_routes_observe_only else ~ all_get_routes_observe_only.
Proof. exact gen_c20_decided. Qed.
Print Assumptions c20_decided.

(* The two ways the drain-[limit] view of the unfixed tree fails (refutations), for the whole family: *)
(* (a) queue longer than the limit, every record present: the first [limit] ids move behind the rest *)
Theorem queue_view_reorders_refuted : forall inside g rr fin,
  exists s limit, forallb (fun i => memb i (records s)) (queue s) = true /\
    queue (fst (qv_run (QVDrain false inside g rr fin) limit s)) <> queue s.
Proof. exact drain_limit_reorders_refuted. Qed.
Print Assumptions queue_view_reorders_refuted.

Theorem queue_view_rotation : forall inside g rr fin s limit, rr <> RNone ->
  forallb (fun i => memb i (records s)) (queue s) = true ->
  let n := Z.to_nat (Z.min limit (Z.of_nat (length (queue s)))) in
  queue (fst (qv_run (QVDrain false inside g rr fin) limit s)) = skipn n (queue s) ++ firstn n (queue s).
Proof. exact drain_limit_rotates. Qed.
Print Assumptions queue_view_rotation.

(* (b) a queued id whose record was purged: the lookup raises after the pops and before the
   re-routes; a popped message is lost *)
Theorem queue_view_drops_refuted : forall all rr,
  exists s limit i, In i (queue s) /\ ~ In i (queue (fst (qv_run (QVDrain all true false rr false) limit s))).
Proof. exact unguarded_lookup_drops_refuted. Qed.
Print Assumptions queue_view_drops_refuted.

(* What does hold for every drain shape that re-routes (partial): with every queued record present
   and the queue no longer than the limit the whole system is given back; with every record present
   no id is lost or duplicated. *)
Theorem queue_view_restores_partial : forall all inside g rr fin s limit, rr <> RNone ->
  forallb (fun i => memb i (records s)) (queue s) = true ->
  (Z.of_nat (length (queue s)) <= limit)%Z ->
  fst (qv_run (QVDrain all inside g rr fin) limit s) = s.
Proof. exact drain_partial. Qed.
Print Assumptions queue_view_restores_partial.

Theorem queue_view_keeps_ids_partial : forall inside g rr fin s limit, rr <> RNone ->
  forallb (fun i => memb i (records s)) (queue s) = true ->
  Permutation (queue (fst (qv_run (QVDrain false inside g rr fin) limit s))) (queue s).
Proof. exact drain_permutes_when_present. Qed.
Print Assumptions queue_view_keeps_ids_partial.

(* The implementations behind the read-only classification (gen/ReadImpl_gen.v, regenerated on every run from
   pynenc/{broker,orchestrator,state_backend,trigger}/{base,mem,sqlite}_*.py): every method the model classifies
   read-only is implemented - in the in-memory and in the SQLite backend, followed through self-calls, helper objects
   and module helpers - by code whose only effects are calls of read-only methods: no store / del / in-place operator
   / mutating method on a stored container (not even through a local alias of it), no SQL write, no housekeeping
   sweep piggy-backed on a listing. *)
Theorem read_methods_implemented_without_writes : impls_ok gen_read_impl = true.
Proof. exact gen_read_impl_ok. Qed.
Print Assumptions read_methods_implemented_without_writes.

(* ... and the table is not vacuous for the monitor: every backend-implemented read method some GET route can
   reach has an analysed implementation for both backends. *)
Theorem get_routes_reach_analysed_implementations : impl_coverage gen_routes gen_read_impl = true.
Proof. exact gen_impl_coverage. Qed.
Print Assumptions get_routes_reach_analysed_implementations.

Theorem get_routes_reach_observing_code : forall r a i e,
  In r gen_routes -> r_qv r = false -> In a (r_reach r) -> In i gen_read_impl -> i_api i = a ->
  In e (i_effects i) -> exists b, e = ECall b /\ read_only b = true.
Proof. exact gen_get_routes_reach_observing_code. Qed.
Print Assumptions get_routes_reach_observing_code.

(* non-vacuity: the table is not empty, and a handler that counts, looks up a purged record and
   fails on it leaves a non-trivial system untouched *)
Example c20_nonvacuous :
  gen_routes <> [] /\ gen_read_impl <> [] /\
  impl_ok (mkImpl AOrchCount 0 "narrowing the live index in place" [EWriteContainer]) = false /\
  impl_ok (mkImpl AOrchIdsPaginated 1 "sweeping before listing" [ECall AOrchPurge; EWriteSql]) = false /\
  let s := mkSys [4; 5] [(4, (0, None))] [4] [(4, 1)] [] [(4, [0])] [(1, 9)] [1] [] [(1, 1)] [] in
  run (PCall (mkCall ABrokerCount 0 [])
        (fun _ => PCall (mkCall ASbInvocation 5 [])
           (fun o => match o with ORaise => PFail | _ => PRet end))) s = (s, false).
Proof. repeat split; try discriminate; vm_compute; reflexivity. Qed.

(* Props/C17.v — C17: applications with different ids are isolated, for any id string.
   Statements only; every proof is `exact <lemma of Proofs/{Sanitize,Like,AppDb}Proofs.v>`.
   Ids are lists of Unicode code points; the digest is the executable SHA-256 of Model/Sha256.v
   (compared with hashlib on every run); every constant below named gen_* is regenerated from
   pynenc/util/sqlite_utils.py and the five sqlite component modules on every run. *)
From Coq Require Import List NArith Bool.
Import ListNotations.
From PV Require Import Model.SanitizeDef gen.Sanitize_gen Model.Sanitize Model.Like Model.Sha256 Model.AppDb
  Model.ProcShared gen.ProcShared_gen
  Proofs.SanitizeProofs Proofs.LikeProofs Proofs.AppDbProofs Proofs.ProcSharedProofs.
Open Scope N_scope.

(* 1. No id string can break or escape the naming scheme: for EVERY id the prefix is a non-empty
      text over [A-Za-z0-9_] that does not start with a digit (no quote, semicolon, blank, '%',
      non-ASCII character survives) ... *)
Theorem prefix_is_identifier : forall id, sql_identifier (prefix sha256_hex id) = true.
Proof. exact (prefix_identifier sha256_hex sha256_hex_hex). Qed.
Print Assumptions prefix_is_identifier.

(*    ... and so is every table name of every component. *)
Theorem table_names_are_identifiers : forall id c t,
  In (c, t) vocab_pairs -> sql_identifier (table_name sha256_hex id c t) = true.
Proof. exact (table_name_identifier sha256_hex sha256_hex_hex). Qed.
Print Assumptions table_names_are_identifiers.

(*    The prefix carries at least 32 bits of the digest. *)
Theorem hash_part_at_least_32_bits : forall id, (8 <= length (hash_part sha256_hex id))%nat.
Proof. exact (hash_part_at_least_8 sha256_hex sha256_hex_len). Qed.
Print Assumptions hash_part_at_least_32_bits.

(*    SQLite refuses names that begin with "sqlite_".  Full strength: no id yields such a name. *)
Definition names_never_reserved : Prop :=
  forall id c t, In (c, t) vocab_pairs -> reserved_name (table_name sha256_hex id c t) = false.

(*    It holds once the guard of proposed_fixes/C17-reserved-sqlite-prefix.diff is in the tree ... *)
Theorem names_never_reserved_partial : reserved_rule_present = true -> names_never_reserved.
Proof. exact never_reserved_fixed_pf. Qed.
Print Assumptions names_never_reserved_partial.

(*    ... and is refuted without it: the id "sqlite" names its tables sqlite_<hash>__... *)
Theorem reserved_name_refuted : gen_reserved_guard = false -> ~ names_never_reserved.
Proof. exact reserved_refuted_pf. Qed.
Print Assumptions reserved_name_refuted.

(* 2. The naming scheme parses uniquely: equal table names have equal sanitised text, equal hash
      digits, the same component and the same table. *)
Theorem table_name_injective : forall a b ca ta cb tb,
  In (ca, ta) vocab_pairs -> In (cb, tb) vocab_pairs ->
  table_name sha256_hex a ca ta = table_name sha256_hex b cb tb ->
  sanitize a = sanitize b /\ hash_part sha256_hex a = hash_part sha256_hex b /\ ca = cb /\ ta = tb.
Proof. exact (table_name_inj sha256_hex sha256_hex_len). Qed.
Print Assumptions table_name_injective.

(*    SQLite identifies table names without regard to ASCII case: the scheme still parses uniquely
      (ids that differ only in letter case get different tables unless the hash digits coincide). *)
Theorem table_name_injective_nocase : forall a b ca ta cb tb,
  In (ca, ta) vocab_pairs -> In (cb, tb) vocab_pairs ->
  map fold_ascii (table_name sha256_hex a ca ta) = map fold_ascii (table_name sha256_hex b cb tb) ->
  map fold_ascii (sanitize a) = map fold_ascii (sanitize b) /\ hash_part sha256_hex a = hash_part sha256_hex b
  /\ ca = cb /\ ta = tb.
Proof. exact (table_name_inj_nocase sha256_hex sha256_hex_hex sha256_hex_len). Qed.
Print Assumptions table_name_injective_nocase.

(* 3. Sharing a table.  Full strength: two different ids never own a common table. *)
Definition ids_never_share_tables : Prop :=
  forall a b n, a <> b -> In n (all_tables sha256_hex a) -> In n (all_tables sha256_hex b) -> False.

(*    Proved part: unless BOTH the sanitised texts and the 8 hash digits coincide. *)
Theorem ids_never_share_tables_partial : forall a b n,
  sanitize a <> sanitize b \/ hash_part sha256_hex a <> hash_part sha256_hex b ->
  In n (all_tables sha256_hex a) -> In n (all_tables sha256_hex b) -> False.
Proof. exact never_share_partial_pf. Qed.
Print Assumptions ids_never_share_tables_partial.

(*    Refuted at full strength while the hash part is 8 digits: svc-.-++-.-- / svc.--:++:-: *)
Theorem collision_refuted : gen_hash_len = 8%nat -> ~ ids_never_share_tables.
Proof. exact collision_refuted_pf. Qed.
Print Assumptions collision_refuted.

Theorem collision_shares_every_table :
  gen_hash_len = 8%nat -> col_a <> col_b /\ all_tables sha256_hex col_a = all_tables sha256_hex col_b.
Proof. exact collision_shares_everything_pf. Qed.
Print Assumptions collision_shares_every_table.

(* 4. What the purge of one component selects.  LIKE prefix||'%' is characterised exactly: *)
Theorem purge_pattern_matches : forall id c name, In c components ->
  purge_selects PurgeLike (table_prefix sha256_hex id c) name = true <->
  exists s1 s2, name = s1 ++ s2 /\ Forall2 char_matches (table_prefix sha256_hex id c) s1.
Proof. exact (like_purge_exact sha256_hex sha256_hex_hex). Qed.
Print Assumptions purge_pattern_matches.

(*    a purge does reach the application's own tables (either selection rule) *)
Theorem purge_selects_own_tables : forall k id c t, In (c, t) vocab_pairs -> In c components ->
  purge_selects k (table_prefix sha256_hex id c) (table_name sha256_hex id c t) = true.
Proof. exact (purge_selects_own sha256_hex sha256_hex_hex). Qed.
Print Assumptions purge_selects_own_tables.

(*    Full strength: purging any component of a selects no table of b whenever the prefixes differ. *)
Definition purge_isolated (k : purge_kind) : Prop :=
  forall a b c cb tb, In c components -> In (cb, tb) vocab_pairs ->
    prefix sha256_hex a <> prefix sha256_hex b ->
    purge_selects k (table_prefix sha256_hex a c) (table_name sha256_hex b cb tb) = false.

Theorem purge_isolated_structural : purge_isolated PurgeStructural.
Proof. exact purge_isolated_structural_pf. Qed.
Print Assumptions purge_isolated_structural.

(*    The LIKE rule violates it: b := a's own table prefix followed by anything. *)
Theorem purge_like_refuted : ~ purge_isolated PurgeLike.
Proof. exact purge_like_refuted_pf. Qed.
Print Assumptions purge_like_refuted.

(*    Proved part for the LIKE rule: ids whose sanitised texts have the same length (every
      punctuation / letter-case variant of one id) are reached only on equal hash digits — the
      '_' wildcards and the case folding of LIKE do not matter for them. *)
Theorem purge_like_partial : forall a b c cb tb,
  In c components -> In (cb, tb) vocab_pairs ->
  length (sanitize a) = length (sanitize b) ->
  purge_selects PurgeLike (table_prefix sha256_hex a c) (table_name sha256_hex b cb tb) = true ->
  hash_part sha256_hex a = hash_part sha256_hex b.
Proof. exact (like_purge_same_length sha256_hex sha256_hex_hex sha256_hex_len). Qed.
Print Assumptions purge_like_partial.

(* 5. Operation sequences on one shared file.  Full strength: whatever operations (creation of
      the tables, row insertions, purges of each component) applications with a different prefix
      perform, in any number and order, the row counts of all of b's tables stay the same. *)
Definition ops_isolated (k : purge_kind) : Prop :=
  forall ops b d,
    (forall o, In o ops -> wf_op o /\ prefix sha256_hex (op_app o) <> prefix sha256_hex b) ->
    view sha256_hex b (run sha256_hex k d ops) = view sha256_hex b d.

Theorem ops_isolated_structural : ops_isolated PurgeStructural.
Proof. exact ops_isolated_structural_pf. Qed.
Print Assumptions ops_isolated_structural.

Theorem ops_like_refuted : ~ ops_isolated PurgeLike.
Proof. exact ops_like_refuted_pf. Qed.
Print Assumptions ops_like_refuted.

Theorem ops_like_partial : forall ops b d,
  (forall o, In o ops -> wf_op o /\ length (sanitize (op_app o)) = length (sanitize b)
                         /\ hash_part sha256_hex (op_app o) <> hash_part sha256_hex b) ->
  view sha256_hex b (run sha256_hex PurgeLike d ops) = view sha256_hex b d.
Proof. exact ops_isolated_like_guarded_pf. Qed.
Print Assumptions ops_like_partial.

(* 6. The selection rule delete_tables_with_prefix has in the CURRENT source tree (gen_purge):
      isolated if it is the structural rule, refuted if it is the LIKE rule. *)
Theorem isolation_of_this_tree :
  match gen_purge with
  | PurgeStructural => purge_isolated gen_purge /\ ops_isolated gen_purge
  | PurgeLike => ~ purge_isolated gen_purge /\ ~ ops_isolated gen_purge
  end.
Proof. exact (this_tree_pf gen_purge). Qed.
Print Assumptions isolation_of_this_tree.

(* 7. One process.  Per-instance attributes belong to one application object; what the components of
      two applications have in common are the containers bound in a class body or at module level of the
      component modules (gen_shared: regenerated from the source with the kinds of access made to each).
      If every such container is only stored to / removed from under the acting application's own id,
      no sequence of accesses by other applications changes what b observes (Model/ProcShared.v). *)
Theorem keyed_containers_isolate : forall sh, all_keyed sh = true -> proc_isolated sh.
Proof. exact keyed_isolated_pf. Qed.
Print Assumptions keyed_containers_isolate.

(*    A process-wide container that is cleared as a whole refutes it (b registered itself, a clears) ... *)
Theorem clear_breaks_isolation : forall sh c accs,
  accs_of sh c = Some accs -> has AClear accs = true -> has APutId accs = true -> ~ proc_isolated sh.
Proof. exact clear_refuted_pf. Qed.
Print Assumptions clear_breaks_isolation.

(*    ... and so does one that is written and read at keys that are not application ids. *)
Theorem foreign_keys_break_isolation : forall sh c accs,
  accs_of sh c = Some accs -> has APutKey accs = true -> has AGetKey accs = true -> ~ proc_isolated sh.
Proof. exact unkeyed_refuted_pf. Qed.
Print Assumptions foreign_keys_break_isolation.

(*    The process-wide containers of the CURRENT source tree keep the applications apart. *)
Theorem process_isolation_of_this_tree : proc_isolated gen_shared.
Proof. exact (keyed_isolated_pf gen_shared eq_refl). Qed.
Print Assumptions process_isolation_of_this_tree.

(* non-vacuity: "9 lives!" -> "_9_lives_" ++ "_" ++ 8 hex digits, then "__broker_message_queue" *)
Example c17_nonvacuous :
  sanitize [57; 32; 108; 105; 118; 101; 115; 33] = [95; 57; 95; 108; 105; 118; 101; 115; 95] /\
  prefix sha256_hex [120] = [120; 95; 50; 100; 55; 49; 49; 54; 52; 50] /\
  all_tables sha256_hex [120] <> [] /\
  (* the registry after "b" and "a" registered: b observes its own entry only, before and after a's removal *)
  pview [([82], [AGetId; APutId; ADelId])] [98] (prun [] [PPutId [98] [82] 7; PPutId [97] [82] 9; PDelId [97] [82]])
    = [(Some 7, [])].
Proof. vm_compute. repeat split; try reflexivity. discriminate. Qed.

#!/bin/bash
# Build the whole Coq development from files on disk (offline), full .vo build.
set -e
cd "$(dirname "$0")"
export PYTHONPATH="/verif:${VERIF_REPO:-/repo}" PYTHONHASHSEED=0 PYTHONDONTWRITEBYTECODE=1
# no declared axioms / admitted proofs / disabled checks anywhere in the development
if grep -rnE '\b(Admitted|admit|Axiom|Axioms|Parameter|Parameters|Conjecture|Admit Obligations)\b|Unset Guard|bypass_check|type-in-type|impredicative-set' coq --include='*.v' --include='_CoqProject' | grep -v '^coq/tmp/' ; then
  echo "forbidden construct found in the Coq development" >&2; exit 1
fi
mkdir -p coq/tmp evidence replays
# regenerate coq/gen from the current /repo tree (falls back to coq/gen_default when a translator fails closed)
/venv/bin/python -m harness.regen
cd coq
coq_makefile -f _CoqProject -o Makefile > /dev/null
timeout 3000 make -j16 2>&1 | grep -v '^COQC\|^COQDEP\|Closed under the global context' || true
test -f Props/C01.vo
echo "setup ok"
